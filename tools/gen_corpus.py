#!/usr/bin/env python3
"""Generates /verif/sim/shared/corpus.rs: the corpus of #[cache] / #[cache_async] functions
(level L2) with a table describing each one to the simulator. Fixed generator seed; the output
is checked in. Compiling the corpus is the compile-accept half of C19."""
import random
import sys

rnd = random.Random(20261004)

ARG = {
    "u32": ("u32", ["0", "1", "7", "12", "123", "23", "3", "4000000000"]),
    "i64": ("i64", ["-1", "0", "1", "-12", "9223372036854775807", "12", "-123", "3"]),
    "String": ("String", ['"a|b"', '"a"', '""', '"\\""', '"x\\\\"', '"\\u{fc}"', '"a|"', '"\'"']),
    "str": ("&'static str", ['"a|b"', '"a"', '""', '"\\""', '"x\\\\"', '"\\u{fc}"', '"a|"', '"\'"']),
    "char": ("char", ["'a'", "'|'", "'\"'", "'\\''", "'\\\\'", "'\\u{fc}'", "' '", "'0'"]),
    "bool": ("bool", ["false", "true"]),
    "optu32": ("Option<u32>", ["None", "Some(0)", "Some(1)", "Some(12)", "Some(3)", "Some(123)", "Some(23)", "Some(7)"]),
    "vecu8": ("Vec<u8>", ["vec![]", "vec![1]", "vec![1, 2]", "vec![12]", "vec![0]", "vec![1, 23]", "vec![12, 3]", "vec![2, 1]"]),
    "tup": ("(u32, String)", ['(1, "23".to_string())', '(12, "3".to_string())', '(1, "2|3".to_string())', '(0, "".to_string())',
                              '(0, "|".to_string())', '(7, "a".to_string())', '(7, "b".to_string())', '(8, "a".to_string())']),
    "idx": ("u32", ["0", "1", "2", "3", "4", "5", "6", "7"]),
    # written as a destructuring pattern `(p, q): (u32, char)` in the signature (Copy members: the
    # library's key expression uses the pattern as an expression, so non-Copy members cannot work)
    "pat_tup": ("(u32, char)", ["(1, 'a')", "(12, 'a')", "(1, '|')", "(0, '0')", "(0, '|')", "(7, 'a')", "(7, 'b')", "(8, 'a')"]),
    "f64": ("f64", ["0.0", "1.0", "-1.0", "0.5", "1.5", "12.0", "1e10", "-0.5"]),
}
# two string arguments whose concatenations collide unless boundaries are kept
SPECIAL_SS = ([ '"a|b"', '"a"', '"a"', '""', '"|"', '"x"', '"\\""', '"a\\"|\\"b"' ],
              [ '"c"', '"b|c"', '"b"', '"|"', '""', '"x|"', '"\\""', '"c"' ])

RET = {
    "p0": "(u64, String)",
    "p1": "UserVal",
    "p2": "(u64, Vec<u8>)",
    "p3": "(u64, Vec<String>)",
    "p4": "(u64, Option<String>)",
    "p5": "(u64, (String, Vec<u8>))",
    "p6": "(u64, Box<String>)",
    "p7": "(u64, u8, String)",
    "r0": "Result<(u64, String), (u64, String)>",
    "r1": "std::result::Result<(u64, Vec<u8>), (u64, String)>",
    "r2": "Result<UserVal, UserVal>",
}
MEM = {None: None, "300": 300, '"1KB"': 1024, '"2kb"': 2048, "600": 600, '"1kb"': 1024}
POL = [None, "fifo", "lru", "lfu", "arc", "random", "tlru"]

FNS = []


def add(**kw):
    d = dict(kind="sync", scope="global", policy=None, limit=None, ttl=None, mem=None, weight=None, name=None,
             tags=[], events=[], deps=[], inv_on=False, cache_if=False, ret="p0", sig=["u32"], recv=None, family="", nest=None)
    d.update(kw)
    if d["kind"] == "async":
        d["scope"] = "global"
    FNS.append(d)


def sweep(kind, scope, n_per_policy, family):
    limits = [None, 1, 2, 3]
    ttls = [None, 1, 2, 3]
    mems = [None, None, "300", '"1KB"', '"2kb"', "600"]
    for pol in POL:
        combos = set()
        # always: the bare policy, and one fully loaded configuration
        combos.add((None, None, None))
        combos.add((2, 2, "600"))
        while len(combos) < n_per_policy:
            combos.add((rnd.choice(limits), rnd.choice(ttls), rnd.choice(mems)))
        for (l, t, m) in sorted(combos, key=str):
            w = None
            if pol == "tlru":
                w = rnd.choice([None, "0.3", "1.5", "2", "0.1", "3.0"])
            ret = rnd.choice(["p0", "p1", "p2", "p3", "p4", "p5", "p6", "p7"]) if m else "p0"
            add(kind=kind, scope=scope, policy=pol, limit=l, ttl=t, mem=m, weight=w, ret=ret, family=family)


sweep("sync", "global", 6, "sweep")
sweep("async", "global", 6, "sweep")
sweep("sync", "thread", 3, "sweep")

# Result functions
for kind, scope in (("sync", "global"), ("sync", "thread"), ("async", "global")):
    for ret in ("r0", "r1", "r2"):
        add(kind=kind, scope=scope, ret=ret, family="result")
        add(kind=kind, scope=scope, ret=ret, policy=rnd.choice(["lru", "fifo", "lfu"]), limit=2, family="result")
        add(kind=kind, scope=scope, ret=ret, policy=rnd.choice(["lru", "fifo", "arc"]), mem="600", limit=rnd.choice([None, 3]), family="result")

# cache_if / invalidate_on
for kind, scope in (("sync", "global"), ("sync", "thread"), ("async", "global")):
    for ret in ("p0", "r0"):
        add(kind=kind, scope=scope, ret=ret, cache_if=True, family="cache_if")
        add(kind=kind, scope=scope, ret=ret, cache_if=True, policy="lru", limit=2, family="cache_if")
        add(kind=kind, scope=scope, ret=ret, cache_if=True, policy="fifo", mem="600", family="cache_if")
        add(kind=kind, scope=scope, ret=ret, inv_on=True, family="inv_on")
        add(kind=kind, scope=scope, ret=ret, inv_on=True, policy="lru", limit=2, ttl=2, family="inv_on")
        add(kind=kind, scope=scope, ret=ret, inv_on=True, policy="lfu", limit=3, family="inv_on")
    add(kind=kind, scope=scope, ret="p0", inv_on=True, cache_if=True, family="inv_on+cache_if")
    add(kind=kind, scope=scope, ret="r1", inv_on=True, cache_if=True, policy="arc", limit=2, family="inv_on+cache_if")

# invalidation groups: overlapping names across the three tables
groups = [
    dict(tags=["x"]), dict(events=["x"]), dict(deps=["x"]),
    dict(tags=["t0", "t1"]), dict(tags=["t1"], events=["e0"]), dict(events=["e0", "e1"]),
    dict(deps=["d0"], tags=["t0"]), dict(deps=["d0", "x"]), dict(tags=["y"], events=["y"], deps=["y"]),
    dict(tags=["t0"], events=["e1"], deps=["d1"]), dict(), dict(events=["t0"]),
]
for i, g in enumerate(groups):
    for kind in ("sync", "async"):
        add(kind=kind, family="group", policy=rnd.choice(POL), limit=rnd.choice([None, 2, 3]),
            name=(f"grp_{kind}_{i}" if i % 3 == 0 else None), **g)
# a chain: `dep_mid` depends on the label "d0"; `dep_leaf` depends on the label "dep_mid", which is also the
# NAME of the first cache: invalidating dependency "d0" must not cascade to the leaf
for kind in ("sync", "async"):
    add(kind=kind, family="group", name=f"dep_mid_{kind}", deps=["d0"], limit=2, policy="lru")
    add(kind=kind, family="group", name=f"dep_leaf_{kind}", deps=[f"dep_mid_{kind}"])
# a thread-scope function with tags (must never be touched by group invalidation)
add(kind="sync", scope="thread", tags=["t0", "x"], events=["e0"], family="group")

# signature shapes
shapes = [
    [], ["u32"], ["String"], ["str"], ["char", "bool"], ["i64", "str"], ["String", "String"], ["SS"], ["SSstr"], ["SSmix"],
    ["optu32", "vecu8"], ["tup", "char", "u32"], ["pat_tup"], ["u32", "pat_tup"], ["u32", "i64", "String", "bool"], ["f64", "u32"], ["vecu8"], ["str", "str", "char"],
]
for sig in shapes:
    for kind in ("sync", "async"):
        add(kind=kind, sig=sig, family="signature")
        if rnd.random() < 0.5:
            add(kind=kind, sig=sig, family="signature", limit=2, policy=rnd.choice([None, "lru"]))
for recv in ("ref", "val", "mut"):
    for kind in ("sync", "async"):
        for sig in ([], ["u32"], ["String", "char"]):
            add(kind=kind, sig=sig, recv=recv, family="receiver", limit=rnd.choice([None, 2]))
add(kind="sync", scope="thread", sig=["String", "u32"], recv="ref", family="receiver")

# custom names
for kind in ("sync", "async"):
    add(kind=kind, name=f"custom_{kind}_a", family="name")
    add(kind=kind, name=f"custom {kind} with spaces", limit=2, policy="lru", family="name")

# bodies that call other decorated functions / themselves (README's recursive pattern); used by the
# scheduled engines only. nest = list of (offset of the callee in this block, decrement)
NEST0 = len(FNS)
add(kind="sync", sig=["idx"], family="nested", policy="lru", limit=2, tags=["n"], nest=[(1, 1)])           # A -> B
add(kind="sync", sig=["idx"], family="nested", policy="fifo", limit=1, events=["n"], nest=[(2, 1)])        # B -> C
add(kind="sync", sig=["idx"], family="nested", policy="lfu", limit=2, ttl=2, tags=["n"], nest=[(0, 1)])    # C -> A
add(kind="sync", sig=["idx"], family="nested", limit=3, policy="lru", nest=[(3, 1), (3, 2)])               # fib-like self recursion
add(kind="async", sig=["idx"], family="nested", policy="lru", limit=2, tags=["n"], nest=[(5, 0)])          # async A -> async B
add(kind="async", sig=["idx"], family="nested", policy="fifo", limit=1, dependencies=None)                 # async B (leaf)
add(kind="sync", sig=["idx"], family="nested", max_memory="600", policy="arc", nest=[(0, 1)])              # memory-bounded -> A
for d in FNS[NEST0:]:
    d.pop("dependencies", None)

for kind, scope in (("sync", "global"), ("sync", "thread"), ("async", "global")):
    add(kind=kind, scope=scope, sig=["u32"], family="early_return", early_return=True)
    add(kind=kind, scope=scope, sig=["u32", "String"], family="early_return", early_return=True, limit=2, policy="lru")
    add(kind=kind, scope=scope, sig=["u32"], family="early_return", early_return=True, ret="r0")

out = []
w = out.append
w("// @generated by tools/gen_corpus.py — do not edit.")
w("#![allow(clippy::all)]")
w("#![allow(unused_variables, unused_mut, dead_code, non_snake_case)]")
w("use crate::sim_std as std;")
w("use crate::vals::*;")
w("use crate::world::{self, Key};")
w("use cachelito_async_macros::cache_async;")
w("use cachelito_macros::cache;")
w("use simcore::model::{Flavour, Policy};")
w("")
w("#[derive(Clone, Debug, PartialEq)]")
w("pub struct Recv { pub id: u32, pub tag: String }")
w("impl cachelito_core::DefaultCacheableKey for Recv {}")
w("#[derive(Clone, Copy, Debug, PartialEq)]")
w("pub struct RecvC { pub id: u32, pub flag: bool }")
w("impl cachelito_core::DefaultCacheableKey for RecvC {}")
w("")
w("pub struct RetObs { pub stamp: u64, pub is_err: bool, pub fp: usize }")
w("fn obs<R: RetVal>(r: R) -> RetObs { let c = r.clone(); RetObs { stamp: r.r_stamp(), is_err: r.r_is_err(), fp: c.r_fp() } }")
w("pub type AFut = ::std::pin::Pin<Box<dyn ::std::future::Future<Output = RetObs>>>;")
w("")
w("pub struct FnSpec {")
w("    pub id: u16, pub fn_name: &'static str, pub reg_name: &'static str, pub family: &'static str, pub attrs: &'static str,")
w("    pub is_async: bool, pub flavour: Flavour, pub policy: Policy, pub limit: Option<usize>, pub ttl: Option<u64>,")
w("    pub max_memory: Option<usize>, pub weight: Option<f64>,")
w("    pub tags: &'static [&'static str], pub events: &'static [&'static str], pub deps: &'static [&'static str],")
w("    pub has_inv_on: bool, pub has_cache_if: bool, pub is_result: bool, pub nkeys: u8, pub ret_kind: &'static str,")
w("    pub call: fn(Key) -> RetObs, pub fut: Option<fn(Key) -> AFut>, pub repr: fn(Key) -> String, pub fpp: fn(bool, usize) -> usize,")
w("}")
w("")

POLMAP = {None: ("Fifo", "Fifo"), "fifo": ("Fifo", "Fifo"), "lru": ("Lru", "Lru"), "lfu": ("Lfu", "Lfu"), "arc": ("Arc", "Arc"),
          "random": ("Random", "Random"), "tlru": ("Tlru", "Tlru")}

specs = []
for i, f in enumerate(FNS):
    fid = i
    is_async = f["kind"] == "async"
    name = f"f{fid:03}"
    attrs = []
    if f["limit"] is not None:
        attrs.append(f"limit = {f['limit']}")
    if f["policy"] is not None:
        attrs.append(f'policy = "{f["policy"]}"')
    if f["ttl"] is not None:
        attrs.append(f"ttl = {f['ttl']}")
    if not is_async and f["scope"] == "thread":
        attrs.append('scope = "thread"')
    elif not is_async and rnd.random() < 0.15:
        attrs.append('scope = "global"')
    if f["mem"] is not None:
        attrs.append(f"max_memory = {f['mem']}")
    if f["weight"] is not None:
        attrs.append(f"frequency_weight = {f['weight']}")
    if f["name"] is not None:
        attrs.append(f'name = "{f["name"]}"')
    for key in ("tags", "events"):
        if f[key]:
            attrs.append(f"{key} = [" + ", ".join(f'"{t}"' for t in f[key]) + "]")
    if f["deps"]:
        attrs.append("dependencies = [" + ", ".join(f'"{t}"' for t in f["deps"]) + "]")
    if f["inv_on"]:
        attrs.append(f"invalidate_on = inv_{name}")
    if f["cache_if"]:
        attrs.append(f"cache_if = cif_{name}")
    rnd.shuffle(attrs)
    attr_s = ", ".join(attrs)
    ret = RET[f["ret"]]
    # arguments
    sig = f["sig"]
    params, args_expr, tables = [], [], []
    if sig in (["SS"], ["SSstr"], ["SSmix"]):
        kinds = {"SS": ("String", "String"), "SSstr": ("str", "str"), "SSmix": ("String", "str")}[sig[0]]
        for j in range(2):
            tables.append((kinds[j], SPECIAL_SS[j], 1, 0))
        nkeys = 8
    else:
        for j, t in enumerate(sig):
            ty, alph = ARG[t]
            mul = 1 if j == 0 else rnd.choice([1, 3, 5, 7])
            off = 0 if j == 0 else rnd.randrange(8)
            tables.append((t, alph, mul, off))
        nkeys = 8 if sig else 1
        if sig and len(ARG[sig[0]][1]) < 8:
            nkeys = len(ARG[sig[0]][1])
    recv = f["recv"]
    if recv is not None and not sig:
        nkeys = 8
    decl_params = []
    call_args = []
    repr_parts = []
    if recv == "ref":
        decl_params.append("&self")
        repr_parts.append("&self")
    elif recv == "val":
        decl_params.append("self")
        repr_parts.append("&self")
    elif recv == "mut":
        decl_params.append("&mut self")
        repr_parts.append("&*self")
    for j, (t, alph, mul, off) in enumerate(tables):
        ty = "String" if t == "String" else ARG[t][0]
        pname = f"a{j}"
        if t == "pat_tup":
            decl_params.append(f"(p{j}, q{j}): {ty}")
            repr_parts.append(f"&(p{j}, q{j})")
        else:
            decl_params.append(f"{pname}: {ty}")
            repr_parts.append(f"&{pname}")
        n = len(alph)
        vals = ", ".join(alph)
        if ty == "String":
            elem_ty, conv = "&str", ".to_string()"
        else:
            elem_ty, conv = ty, (".clone()" if ty.startswith(("Vec", "(", "Option")) else "")
        # methods: the arguments repeat with period 4 while the receiver changes every 4 tuples, so
        # two different receivers are called with equal arguments
        kx = "(k as usize % 4)" if recv is not None else "k as usize"
        if ty in ("Vec<u8>", "(u32, String)"):
            # not const-constructible: build at call time
            call_args.append(f"{{ let t: [{ty}; {n}] = [{vals}]; t[({kx} * {mul} + {off}) % {n}].clone() }}")
        else:
            call_args.append(f"{{ const T: [{elem_ty}; {n}] = [{vals}]; T[({kx} * {mul} + {off}) % {n}]{conv} }}")
    repr_expr = "format!(\"{:?}\", (" + "".join(p + ", " for p in repr_parts) + "))"
    body_fn = "world::abody" if is_async else "world::body"
    awaitk = ".await" if is_async else ""
    asynck = "async " if is_async else ""
    macro = "cache_async" if is_async else "cache"
    if f["inv_on"]:
        w(f"fn inv_{name}(key: &String, v: &{ret}) -> bool {{ world::inv_on({fid}, key, v) }}")
    if f["cache_if"]:
        w(f"fn cif_{name}(key: &String, v: &{ret}) -> bool {{ world::cache_if({fid}, key, v) }}")
    nest_src = ""
    if f.get("nest"):
        for (off, dec) in f["nest"]:
            callee = f"f{NEST0 + off:03}"
            aw = ".await" if FNS[NEST0 + off]["kind"] == "async" else ""
            if dec == 0:
                nest_src += f"    let _ = {callee}(a0){aw};\n"
            else:
                nest_src += f"    if a0 >= {dec} {{ let _ = {callee}(a0 - {dec}){aw}; }}\n"
    if f.get("early_return"):
        # guard clause: odd first arguments leave the body through an explicit `return`
        nest_src += f"    if a0 % 2 == 1 {{\n        return {body_fn}::<{ret}>({fid}, {repr_expr}){awaitk};\n    }}\n"
    fn_src = (f"#[{macro}({attr_s})]\npub {asynck}fn {name}({', '.join(decl_params)}) -> {ret} {{\n{nest_src}"
              f"    {body_fn}::<{ret}>({fid}, {repr_expr}){awaitk}\n}}")
    if recv is None:
        w(fn_src)
        callee = name
        recv_build = ""
    else:
        rty = "RecvC" if recv == "val" else "Recv"
        w(f"impl {rty} {{\n{fn_src}\n}}")
        if not sig:
            if rty == "RecvC":
                recv_build = "let mut rc = RecvC { id: k as u32, flag: k % 2 == 0 };"
            else:
                recv_build = "let mut rc = Recv { id: (k / 2) as u32, tag: [\"a|b\", \"a\"][k as usize % 2].to_string() };"
        elif rty == "RecvC":
            recv_build = "let mut rc = RecvC { id: (k / 4) as u32, flag: k / 4 == 0 };"
        else:
            recv_build = "let mut rc = Recv { id: 7, tag: [\"a|b\", \"a\"][k as usize / 4 % 2].to_string() };"
        callee = "rc." + name
    # adapters
    argl = ", ".join(call_args)
    if is_async:
        w(f"fn fut_{name}(k: Key) -> AFut {{ Box::pin(async move {{ {recv_build} obs({callee}({argl}).await) }}) }}")
        w(f"fn call_{name}(k: Key) -> RetObs {{ world::drive(fut_{name}(k)) }}")
        fut = f"Some(fut_{name})"
    else:
        w(f"fn call_{name}(k: Key) -> RetObs {{ {recv_build} obs({callee}({argl})) }}")
        fut = "None"
    # repr adapter: same expression as the body computes
    repr_vals = []
    if recv is not None:
        repr_vals.append("&rc")
    let_args = []
    for j, ca in enumerate(call_args):
        let_args.append(f"let a{j} = {ca};")
        repr_vals.append(f"&a{j}")
    w(f"fn fpp_{name}(err: bool, size: usize) -> usize {{ <{ret} as RetVal>::r_build(0, err, size, 0).clone().r_fp() }}")
    w(f"fn repr_{name}(k: Key) -> String {{ {recv_build} {' '.join(let_args)} format!(\"{{:?}}\", ({''.join(v + ', ' for v in repr_vals)})) }}")
    w("")
    flav = "Async" if is_async else ("Thread" if f["scope"] == "thread" else "Sync")
    pol = POLMAP[f["policy"]][0]
    wt = "None" if f["weight"] is None else f"Some({float(f['weight'])}f64)"
    reg = f["name"] if f["name"] is not None else name
    memb = MEM[f["mem"]]
    specs.append(
        f"    FnSpec {{ id: {fid}, fn_name: \"{name}\", reg_name: \"{reg}\", family: \"{f['family']}\", attrs: {'r#' + chr(34) + attr_s + chr(34) + '#'}, "
        f"is_async: {str(is_async).lower()}, flavour: Flavour::{flav}, policy: Policy::{pol}, "
        f"limit: {'None' if f['limit'] is None else 'Some(%d)' % f['limit']}, ttl: {'None' if f['ttl'] is None else 'Some(%d)' % f['ttl']}, "
        f"max_memory: {'None' if memb is None else 'Some(%d)' % memb}, weight: {wt}, "
        f"tags: &[{', '.join(chr(34) + t + chr(34) for t in f['tags'])}], events: &[{', '.join(chr(34) + t + chr(34) for t in f['events'])}], "
        f"deps: &[{', '.join(chr(34) + t + chr(34) for t in f['deps'])}], has_inv_on: {str(f['inv_on']).lower()}, has_cache_if: {str(f['cache_if']).lower()}, "
        f"is_result: {str(f['ret'].startswith('r')).lower()}, nkeys: {nkeys}, ret_kind: \"{f['ret']}\", call: call_{name}, fut: {fut}, repr: repr_{name}, fpp: fpp_{name} }},"
    )

w("/// Footprint of the value the body of function `id` produces for the given script.")
w("pub fn fp_probe(id: u16, err: bool, size: usize) -> usize { (SPECS[id as usize].fpp)(err, size) }")
w("pub static SPECS: &[FnSpec] = &[")
out.extend(specs)
w("];")

path = sys.argv[1] if len(sys.argv) > 1 else "/verif/sim/shared/corpus.rs"
open(path, "w").write("\n".join(out) + "\n")
print(f"{len(FNS)} functions -> {path}")
