#!/usr/bin/env python3
"""False-alarm hunt: behaviour-preserving refactorings written by independent sub-agents must
leave every check silent.

  refactors.py add <worktree> <variant a|b|c> <id>

The refactoring must apply, build and pass the repository's own suite (scratch worktree); then it
is applied to the tree the checks build, every quick check is run, and it is undone. Results go to
/verif/refactors/<id>/ (patch.diff, note.md, meta.json). An alarm is investigated by hand: either
the refactoring does break a property (then it is not a refactoring) or the check is wrong.
"""
import json
import os
import shutil
import sys
import time

ROOT = os.path.dirname(os.path.dirname(os.path.abspath(__file__)))
sys.path.insert(0, os.path.join(ROOT, "tools"))
import seeded as S  # noqa: E402


def main():
    wt, variant, rid = sys.argv[2], sys.argv[3], sys.argv[4]
    diff = os.path.join(wt, f"variant_{variant}.diff")
    note = os.path.join(wt, f"variant_{variant}.md")
    out = os.path.join(os.environ.get("VERIF_REFACTORS_OUT", os.path.join(ROOT, "refactors")), rid)
    os.makedirs(out, exist_ok=True)
    meta = {"id": rid, "kind": "behaviour-preserving refactoring by an independent sub-agent", "confirmed": {}}
    S.ensure_sv()
    ap = S.sh(["git", "-C", S.SV, "apply", "--check", diff])
    if ap.returncode != 0:
        meta["confirmed"]["applies"] = False
        json.dump(meta, open(os.path.join(out, "meta.json"), "w"), indent=1)
        print(rid, "DOES NOT APPLY")
        return 1
    shutil.copy(diff, os.path.join(out, "patch.diff"))
    if os.path.exists(note):
        shutil.copy(note, os.path.join(out, "note.md"))
        meta["what_changed"] = open(note).read()[:1500]
    S.sh(["git", "-C", S.SV, "apply", diff])
    passed, failed, failed_tests, cerr, _ = S.run_suite(S.SV)
    if failed_tests and not cerr:
        _p, _f, failed2, cerr2, _ = S.run_suite(S.SV)
        failed_tests = [t for t in failed_tests if t in failed2]
    S.sh(["git", "-C", S.SV, "checkout", "--", "."])
    meta["confirmed"] = {"applies": True, "compiles": not cerr, "suite": {"passed": passed, "failed_twice": failed_tests}}
    valid = (not cerr) and not failed_tests
    meta["valid"] = valid
    print(rid, "suite:", meta["confirmed"], flush=True)
    if valid:
        a = S.sh(["git", "-C", S.TARGET_REPO, "apply", diff])
        assert a.returncode == 0, a.stdout
        results = {}
        try:
            sys.path.insert(0, os.path.join(ROOT, "bin"))
            from plan import PLAN
            for p in sorted(PLAN):
                t = time.time()
                r = S.sh([os.path.join(ROOT, "bin", "check"), p, "quick"], cwd=ROOT)
                if r.returncode == 0:
                    results[p] = "silent"
                else:
                    lines = [l.strip() for l in r.stdout.splitlines() if l.startswith(("VIOLATION", "  clause=", "HARNESS-ERROR"))][:6]
                    tail = [l for l in r.stdout.splitlines() if l.strip()][-12:]
                    results[p] = {"exit": r.returncode, "lines": lines, "tail": tail}
                print("  ", p, results[p] if results[p] == "silent" else json.dumps(results[p])[:700], round(time.time() - t, 1), flush=True)
        finally:
            S.sh(["git", "-C", S.TARGET_REPO, "checkout", "--", "."])
        meta["checks"] = results
        meta["alarms"] = sorted(p for p, v in results.items() if v != "silent")
    json.dump(meta, open(os.path.join(out, "meta.json"), "w"), indent=1)
    print(rid, "valid" if valid else "INVALID", "alarms:", meta.get("alarms"))
    return 0


if __name__ == "__main__":
    sys.exit(main())
