#!/usr/bin/env python3
"""Re-runs selected quick checks against every stored refactoring (refactors/<id>/patch.diff) after
the harness changed; run from a private copy (tools/mkcopy.sh n):
   VERIF_TARGET_REPO=/tmp/sv<n> python3 tools/recheck_refactors.py C12 C13 C15 C17 C18
Results are added to /verif/refactors/<id>/meta.json under "recheck"."""
import glob
import json
import os
import subprocess
import sys
import time

ROOT = os.path.dirname(os.path.dirname(os.path.abspath(__file__)))
TARGET = os.environ["VERIF_TARGET_REPO"]
OUT = os.environ.get("VERIF_REFACTORS_OUT", "/verif/refactors")
checks = sys.argv[1:]


def sh(cmd, **kw):
    return subprocess.run(cmd, stdout=subprocess.PIPE, stderr=subprocess.STDOUT, text=True, **kw)


alarms = 0
for d in sorted(glob.glob(os.path.join(OUT, "*", "meta.json"))):
    meta = json.load(open(d))
    if not meta.get("valid"):
        continue
    patch = os.path.join(os.path.dirname(d), "patch.diff")
    assert sh(["git", "-C", TARGET, "status", "--porcelain", "--untracked-files=no"]).stdout.strip() == "", "target tree dirty"
    a = sh(["git", "-C", TARGET, "apply", patch])
    if a.returncode != 0:
        print(meta["id"], "does not apply", a.stdout[:200], flush=True)
        continue
    res = {}
    try:
        for p in checks:
            t = time.time()
            r = sh([os.path.join(ROOT, "bin", "check"), p, "quick"], cwd=ROOT)
            if r.returncode == 0:
                res[p] = "silent"
            else:
                alarms += 1
                res[p] = {"exit": r.returncode, "tail": [l for l in r.stdout.splitlines() if l.strip()][-10:]}
            print(meta["id"], p, res[p] if res[p] == "silent" else json.dumps(res[p])[:900], round(time.time() - t, 1), flush=True)
    finally:
        sh(["git", "-C", TARGET, "checkout", "--", "."])
    meta["recheck"] = {"checks": res, "verif_commit": sh(["git", "-C", "/verif", "rev-parse", "--short", "HEAD"]).stdout.strip()}
    json.dump(meta, open(d, "w"), indent=1)
print("alarms:", alarms)
