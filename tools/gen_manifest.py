#!/usr/bin/env python3
"""Regenerates /verif/MANIFEST.json from bin/plan.py and the texts below."""
import json
import os
import sys

ROOT = os.path.dirname(os.path.dirname(os.path.abspath(__file__)))
sys.path.insert(0, os.path.join(ROOT, "bin"))
from plan import PLAN  # noqa: E402

HOOK_COMMITS = ["a176f6f"]

TECH_SEQ = "deterministic simulation: seeded discrete-event histories (simulated clock, scripted bodies/predicates, clock and invalidation faults) checked by refinement against an executable reference model; seed -> exact replay, delta-debugged replay files"
TECH_SCHED = "deterministic simulation: seeded schedule search (shuttle random + PCT schedulers over real cachelito code on scheduled lock shims) with history oracles and a sequential probe checked against the reference model; failing schedules are persisted and replayed"
TECH_POLL = "deterministic simulation with fault enumeration: the simulator polls #[cache_async] futures by hand, takes every poll boundary as suspension and as cancellation point, runs seeded interleaved programs meanwhile; model-based oracle"

TEXT = {
    "C01": ("exploration", "Seeded search over histories at two levels (core caches built directly; about 290 macro-generated functions): every returned value must carry the stamp of an execution of the same function with the same arguments, and every value served from the cache must be the one last stored for that key (stamps are unique per execution, so a stale, foreign or replaced value is attributable). Plus the polling engine: a value served to a call that overlapped a suspended computation of the same key must be the one stored last."),
    "C03": ("exploration", "Seeded search over call histories on corpus functions without limit/ttl/max_memory/predicates (all three flavours, actors on fresh OS threads for thread scope): the body runs iff the model holds no entry for the key; plus seeded schedule search over 2-3 concurrent callers: no execution starts after a storing call for the same key has returned."),
    "C04": ("exploration", "Seeded search at both levels: after every completed operation at most `limit` entries; an overflowing store removes exactly one entry, a non-overflowing one none (also after expiry purges and invalidations, which must free their capacity). Plus seeded schedule search: programs that use at most `limit` distinct keys must never re-execute a key whose storing call has returned (nothing may be evicted without overflow), and general concurrent programs must respect the limit at quiescence."),
    "C05": ("exploration", "Seeded search with values of eight shapes sized around max_memory; footprints are computed by the harness independently of the library's estimator: total <= M after every store, oversize values are not cached and displace nothing, no eviction while the total fits, no more evictions than needed."),
    "C06": ("exploration", "Seeded search on a simulated clock stepped around the TTL boundary (sub-second, T-1, T, T+1, time passing inside the body, backwards for async): age >= ttl is never served and is purged so that it frees capacity; younger entries (async: younger than T-1) are served."),
    "C07": ("exploration", "Seeded search: on every overflow (entry limit or max_memory) the removed key must be the oldest store (FIFO) / the least recently used (LRU) of the reference model, at both levels."),
    "C08": ("exploration", "Seeded search: the victim of every overflow must lie in the admissible set argmin(score) of the documented LFU / ARC / TLRU scores (ties tolerated, relative tolerance 1e-9), for entry and memory pressure, weights {-,0.1,0.3,1,1.5,3}, ttl {-,1..3}."),
    "C09": ("exploration", "Seeded search with an arbitrary Ok/Err script per call on Result-returning corpus functions (both spellings, three flavours, with/without limit and max_memory): an Err is never listed/served, the first Ok is stored and served. Plus the polling engine: an Err that completes late must not disturb an Ok stored by an overlapping call."),
    "C10": ("exploration", "Seeded search with scripted cache_if verdicts: rejected results are not stored, accepted ones are (sync Result: only Ok), and the predicate log shows exactly one consultation per execution with that execution's value and key, none on hits. Plus the polling engine (two in-flight executions of one key keep their own verdicts)."),
    "C11": ("exploration", "Seeded search with scripted invalidate_on verdicts that flip between calls: a stale verdict forces re-execution and the fresh value replaces the stale one (served next time), a valid verdict serves without running; consultation log checked. Plus the polling engine (refresh of a stale entry across a suspension)."),
    "C12": ("exploration", "Seeded search over universes of 3-6 sync+async functions with overlapping tag/event/dependency names: returned counts equal the number of registered matching caches, each is listed empty afterwards, unknown names return 0/false. The 'not used yet' clause is decided in the scheduled build where registration state is per execution."),
    "C13": ("exploration", "Seeded search with arbitrary key subsets as predicates: key listing after = before minus exactly the matching keys for every cache; the history continues and every later overflow / victim / total must agree with the model from which the keys were deleted. Plus seeded schedule search: calls and conditional invalidations on caches that use at most `limit` distinct keys — an entry that no invalidation can have removed must still be served (an invalidation racing with a hit must not leave bookkeeping behind that evicts live entries); fill-first programs: after a concurrent phase of hits and conditional invalidations in which no body ran, filling the cache up to its limit with fresh keys must evict nothing."),
    "C14": ("exploration", "Seeded search with 2-4 real OS threads as actors run one at a time by the simulator (late respawn = thread exit + fresh thread): one model per thread for scope=thread, one shared model for global/async. Plus seeded schedule search on shared caches: while at most `limit` distinct keys are in use a value whose storing call has returned must be served to every later caller on every thread."),
    "C15": ("exploration", "Seeded search: after every operation stats_registry::get(name) of every cache in the universe equals the model's (hits, misses); reset(name) zeroes only that name; plus schedule search with 2-3 threads: hits+misses = calls, misses = executions, with a scheduling point inside every counter operation."),
    "C16": ("exploration", "The configuration product (3 flavours x 6 policies x limit 1-4 x ttl {-,1,2,3} x max_memory {-,small} x weight (6) = 3456) is enumerated completely by every run of the check, each configuration with seeded histories that overflow, expire, re-store and hit the memory path; plus the whole corpus at macro level; every operation under catch_unwind, overflow checks on. Plus seeded schedule search (a panic that needs an interleaving) and a real-time watchdog that reports an operation that never returns."),
    "C17": ("exploration", "Seeded schedule search (uniform random and PCT) at lock-acquisition granularity over 2-3 simulated threads running generated programs of cached calls, group / conditional invalidations and statistics queries on real cachelito code over scheduled lock shims; shuttle's deadlock detector and a step budget are the oracle."),
    "C18": ("exploration", "Same schedule search; every call's value is checked inside the threads, and at quiescence the key listing respects limit / max_memory and a sequential probe history is checked by the reference model (every surviving entry can still be evicted, expired and invalidated)."),
    "C19": ("exploration", "Differential simulation: each corpus function and a directly constructed core cache configured with the attribute values as written are driven through the same seeded history (same clock script, same fastrand seed, same body script); hit/miss/execution traces and key listings must be identical. Compile-accept = the corpus builds; compile-reject is a non-simulation adjunct (generated invalid items must be rejected by rustc)."),
    "C20": ("fault_enumeration", "For every async corpus family and bodies with 1-3 awaits, every poll boundary is taken in turn as suspension point and as cancellation point; seeded programs (other calls, invalidations, listings, clock steps) run meanwhile; the cache must behave as the model in which the suspended/dropped call performed only its lookup, and as a normal completion on resume."),
}

ENGINE = {"l1": "seq-l1", "l2": "seq-l2", "sched": "sched", "poll": "poll", "diff": "diff"}


def main():
    props = [json.loads(l) for l in open(os.path.join(ROOT, "properties.jsonl"))]
    checks = []
    for pid in sorted(PLAN):
        level, text = TEXT[pid]
        engines = [part["engine"] for part in PLAN[pid]["parts"]]
        tech = TECH_SEQ
        if engines == ["poll"]:
            tech = TECH_POLL
        elif "poll" in engines and "sched" not in engines:
            tech = TECH_SEQ + "; plus manual polling of the generated futures (suspension / cancellation enumeration) for the async clause"
        elif engines == ["sched"]:
            tech = TECH_SCHED
        elif "sched" in engines:
            tech = TECH_SEQ + "; plus seeded schedule search (shuttle) for the concurrent clause"
        checks.append({
            "property_id": pid,
            "quick_cmd": f"bin/check {pid} quick",
            "thorough_cmd": f"bin/check {pid} thorough",
            "evidence_file": f"evidence/{pid}.json",
            "replay_cmd_template": "bin/replay {path}",
            "engine": "+".join(ENGINE.get(e, e) for e in engines),
            "level_claimed": {"category": PLAN[pid]["level"], "text": text, "design_ref": f"DESIGN.md section 5 ({pid})"},
            "level_note": "Sampling over seeds within stated bounds, not a proof. Trusted: the reference model (sim/simcore), the cfg(cachelito_verif) seams, rustc/cargo, the python driver"
                          + ("; in scheduled runs parking_lot/dashmap/once_cell/std::sync::Once are models on shuttle primitives (sim/shims) and shuttle's engine is trusted" if ("sched" in engines or "poll" in engines) else "")
                          + ". Real code: everything under /repo (core + proc-macros), compiled from the working tree at check time.",
            "technique": tech,
        })
    na = []
    for p in props:
        if p["id"] in PLAN:
            continue
        if p["id"] == "C02":
            na.append({"property_id": "C02", "reason": "pure injectivity of the argument-tuple -> key-string function: no schedule, clock, fault, history or interleaving for a simulator to decide (DESIGN.md section 6); dressing input generation as simulation would not be honest"})
        else:
            na.append({"property_id": p["id"], "reason": "check under construction in this session; not claimed yet"})
    m = {
        "version": 1,
        "setup_cmd": "bin/setup",
        "hooks": {
            "guard": "cachelito_verif",
            "enable": "rustflags --cfg cachelito_verif from /verif/sim/{real,sched}/.cargo/config.toml; shadow manifests under /verif/sim/*/shadow compile /repo's sources in place",
            "baseline_off_cmd": "cd /repo && cargo test --workspace --no-fail-fast --offline",
            "source_commits": HOOK_COMMITS,
            "add_only": True,
        },
        "engines": [
            {"name": "seq-l1", "path": "sim/real/harness/src/l1.rs", "serves_properties": sorted(p for p in PLAN if any(x["engine"] == "l1" for x in PLAN[p]["parts"])),
             "kind_free_text": "sequential discrete-event simulation of the three core caches on harness-owned storage, simulated clock, real parking_lot/dashmap"},
            {"name": "seq-l2", "path": "sim/real/harness/src/l2.rs", "serves_properties": sorted(p for p in PLAN if any(x["engine"] == "l2" for x in PLAN[p]["parts"])),
             "kind_free_text": "sequential / turnstile-actor simulation of about 290 macro-generated functions (real proc-macros), black-box observation incl. key listing"},
            {"name": "sched", "path": "sim/sched/harness/src", "serves_properties": sorted(p for p in PLAN if any(x["engine"] == "sched" for x in PLAN[p]["parts"])),
             "kind_free_text": "shuttle executions of real cachelito code over scheduled shims of parking_lot/dashmap/once_cell"},
            {"name": "poll", "path": "sim/sched/harness/src", "serves_properties": sorted(p for p in PLAN if any(x["engine"] == "poll" for x in PLAN[p]["parts"])),
             "kind_free_text": "manual polling of #[cache_async] futures: suspension / cancellation enumeration"},
            {"name": "diff", "path": "sim/real/harness/src/diff.rs", "serves_properties": sorted(p for p in PLAN if any(x["engine"] == "diff" for x in PLAN[p]["parts"])),
             "kind_free_text": "differential simulation macro-generated function vs directly configured core cache"},
        ],
        "checks": checks,
        "not_applicable": na,
        "notes": "bin/check <id> <tier> honours VERIF_SEED (default 20261004) and VERIF_TIER. Exit 0 held / 1 violation (VIOLATION line + replay file) / 2 harness or build error. KNOWN_FINDINGS.txt lists fixed defects (fix: commits in /repo); no open findings.",
    }
    m["engines"] = [e for e in m["engines"] if e["serves_properties"]]
    json.dump(m, open(os.path.join(ROOT, "MANIFEST.json"), "w"), indent=1)
    print("checks:", [c["property_id"] for c in checks], "n/a:", [x["property_id"] for x in na])


main()
