#!/usr/bin/env python3
"""Writes the sensitivity tables of DESIGN.md section 12.5 from the recorded results:
   work/sensitivity*.json (own mutants), work/mutant_validation.json, seeded/*/meta.json."""
import glob
import json
import os
import re
import sys

ROOT = os.path.dirname(os.path.dirname(os.path.abspath(__file__)))
sys.path.insert(0, os.path.join(ROOT, "tools"))
from mutants import M  # noqa: E402

BEGIN = "<!-- BEGIN GENERATED 12.5 -->"
END = "<!-- END GENERATED 12.5 -->"


def load_sensitivity():
    res = {}
    for f in sorted(glob.glob(os.path.join(ROOT, "notes", "sensitivity*.json")), key=os.path.getmtime):
        for row in json.load(open(f)):
            res[row[0]] = row
    return res


def main():
    sens = load_sensitivity()
    val = {}
    vf = os.path.join(ROOT, "notes", "mutant_validation.json")
    if os.path.exists(vf):
        val = dict((x[0], x[1]) for x in json.load(open(vf)))
    out = [BEGIN, ""]
    out.append("#### Own mutants (tools/mutants.py)")
    out.append("")
    out.append("`suite` = the mutant also passes the repository's own 401 test results (`ok`) or is killed by them (`killed`; kept for sensitivity only).")
    out.append("")
    out.append("| mutant | what it does | suite | expected | caught by (quick tier, replay reproduced) |")
    out.append("|---|---|---|---|---|")
    n = caught = 0
    for m in M:
        row = sens.get(m["id"])
        if row is None:
            verdict = "not run"
        elif isinstance(row[1], dict):
            c = [p for p, v in row[1].items() if v[0] == "caught"]
            miss = [p for p, v in row[1].items() if v[0] != "caught"]
            verdict = ", ".join(c) if c else "**missed**"
            if miss and c:
                verdict += " (silent: " + ", ".join(miss) + ")"
            n += 1
            caught += 1 if c else 0
        else:
            verdict = str(row[1])
        v = val.get(m["id"], "?")
        v = "ok" if v == "ok" else ("killed" if str(v).startswith("BAD") else v)
        out.append(f"| {m['id']} | {m['note']} | {v} | {', '.join(m['props'])} | {verdict} |")
    out.append("")
    out.append(f"{caught} of {n} mutants run are caught by at least one of the checks expected to catch them.")
    out.append("")
    out.append("#### Changes seeded by independent sub-agents (/verif/seeded/<id>/)")
    out.append("")
    out.append("Each sub-agent was given only the text of one property and a scratch worktree. A change is listed as *valid* only after it was confirmed here: it applies, the workspace builds, every pre-existing test passes, the demonstration fails with it and passes without it.")
    out.append("")
    out.append("| id | property | change (what it needs to manifest) | valid | own check | other checks that fire | silent checks |")
    out.append("|---|---|---|---|---|---|---|")
    tot = own = anyc = 0
    for d in sorted(glob.glob(os.path.join(ROOT, "seeded", "*", "meta.json"))):
        m = json.load(open(d))
        note = (m.get("needs_to_manifest") or "").strip().splitlines()
        desc = " ".join(l.strip("# ").strip() for l in note[:3])[:260].replace("|", "\\|")
        if not m.get("valid"):
            why = "does not apply to the current tree" if m.get("confirmed", {}).get("applies") is False else "not confirmed"
            out.append(f"| {m['id']} | {m['property']} | {desc} | no ({why}) | - | - | - |")
            continue
        tot += 1
        cb = m.get("caught_by", [])
        own += 1 if m["property"] in cb else 0
        anyc += 1 if cb else 0
        silent = [p for p, v in m.get("checks", {}).items() if isinstance(v, dict) and v.get("verdict") == "silent"]
        out.append(f"| {m['id']} | {m['property']} | {desc} | yes | {'**caught**' if m['property'] in cb else 'MISSED'} | {', '.join(p for p in cb if p != m['property']) or '-'} | {len(silent)} |")
    out.append("")
    out.append(f"{tot} valid seeded changes: {own} caught by the check of the property they were written against, {anyc} caught by at least one check.")
    out.append("")
    out.append(END)
    text = "\n".join(out)
    p = os.path.join(ROOT, "DESIGN.md")
    s = open(p).read()
    if BEGIN in s:
        s = s[: s.index(BEGIN)] + text + s[s.index(END) + len(END):]
    else:
        s = s.rstrip("\n") + "\n\n### 12.5 Which checks catch which changes\n\n" + text + "\n"
    open(p, "w").write(s)
    print("own mutants:", caught, "/", n, " seeded valid:", tot, "own-check:", own, "any:", anyc)


main()
