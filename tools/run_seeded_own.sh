#!/bin/sh
# usage: run_seeded_own.sh <n> item...   item = <worktree>:<variant>:<PROP>:<id>   (own-property check only)
n=$1; shift
cd /tmp/vcopy$n
export VERIF_TARGET_REPO=/tmp/sv$n VERIF_SCRATCH=/tmp/sv$n VERIF_SEEDED_OUT=/verif/seeded
for it in "$@"; do
  wt=$(echo $it | cut -d: -f1); v=$(echo $it | cut -d: -f2); p=$(echo $it | cut -d: -f3); id=$(echo $it | cut -d: -f4)
  python3 tools/seeded.py add $wt $v $p --id $id --checks $p >> /verif/work/seeded_r3_$n.log 2>&1
done
echo "DONE" >> /verif/work/seeded_r3_$n.log
