"""Sensitivity mutants: realistic property-breaking edits of /repo, expressed as exact
search/replace pairs against the current tree. Each entry: id, properties whose checks are
expected to catch it, file (relative to /repo), old, new, note."""

CORE = "cachelito-core/src/"
M = []


def mut(id, props, file, old, new, note="", count=1):
    M.append(dict(id=id, props=props, file=file, old=old, new=new, note=note, count=count))


# ---------------------------------------------------------------- C01
mut("c01_async_keep_old", ["C01", "C11"], CORE + "async_global_cache.rs",
    "        if !self.dequeue_existing_key(key, &mut order) {", "        if self.cache.contains_key(key) {\n            return;\n        }\n        if !self.dequeue_existing_key(key, &mut order) {",
    "async store keeps the first value when the key exists (reverts the D1 fix)")
mut("c01_sync_insert_keep_old", ["C01", "C11"], CORE + "global_cache.rs",
    "        self.map.write().insert(key_s.clone(), entry);\n\n        let mut o = self.order.lock();\n        if let Some(pos) = o.iter().position(|k| *k == key_s) {\n            o.remove(pos);\n        }\n        o.push_back(key_s.clone());\n\n        // Always handle",
    "        self.map.write().entry(key_s.clone()).or_insert(entry);\n\n        let mut o = self.order.lock();\n        if let Some(pos) = o.iter().position(|k| *k == key_s) {\n            o.remove(pos);\n        }\n        o.push_back(key_s.clone());\n\n        // Always handle",
    "sync insert keeps the old value when the key exists")
# ---------------------------------------------------------------- C03
mut("c03_thread_lfu_never_hits", ["C03"], CORE + "thread_local_cache.rs",
    "                EvictionPolicy::LFU => {\n                    // Increment frequency counter\n                    self.increment_frequency(key);\n                }",
    "                EvictionPolicy::LFU => {\n                    // Increment frequency counter\n                    self.increment_frequency(key);\n                    return None;\n                }",
    "thread-local LFU lookups always miss")
mut("c03_async_store_only_nonempty", ["C03", "C01"], "cachelito-async-macros/src/lib.rs",
    "        quote! { __cache.insert(&__key, __result.clone()); }",
    "        quote! { if !__key.is_empty() { __cache.insert(&__key, __result.clone()); } }",
    "async functions without arguments (empty key) are never cached")
# ---------------------------------------------------------------- C04
mut("c04_random_no_delete", ["C04"], CORE + "global_cache.rs",
    "                            if let Some(evict_key) = o.remove(pos) {\n                                let mut map_write = self.map.write();\n                                map_write.remove(&evict_key);\n                            }\n                        }\n                    }\n                    EvictionPolicy::FIFO | EvictionPolicy::LRU => {\n                        // Keep trying",
    "                            if let Some(_evict_key) = o.remove(pos) {\n                            }\n                        }\n                    }\n                    EvictionPolicy::FIFO | EvictionPolicy::LRU => {\n                        // Keep trying",
    "global Random eviction forgets to delete the victim from the store")
mut("c04_expired_left_in_queue", ["C04", "C06"], CORE + "global_cache.rs",
    "            let mut map_write = self.map.write();\n            remove_key_from_global_cache(&mut map_write, &mut o, key);",
    "            let mut map_write = self.map.write();\n            let _ = &mut o;\n            map_write.remove(key);",
    "global get leaves the expired key in the order queue")
mut("c04_restore_dup_queue", ["C04"], CORE + "thread_local_cache.rs",
    "            let mut order = o.borrow_mut();\n            if let Some(pos) = order.iter().position(|k| *k == key) {\n                order.remove(pos);\n            }\n            order.push_back(key.clone());\n\n            // Only handle entry-count limits",
    "            let mut order = o.borrow_mut();\n            order.push_back(key.clone());\n\n            // Only handle entry-count limits",
    "thread-local insert duplicates a re-stored key in the queue")
mut("c04_async_limit_off_by_one", ["C04"], CORE + "async_global_cache.rs",
    "            if self.cache.len() >= limit {", "            if self.cache.len() > limit {",
    "async overflow test >= became >")
mut("c04_thread_limit_off_by_one", ["C04"], CORE + "thread_local_cache.rs",
    "            if order.len() > limit {", "            if order.len() >= limit {",
    "thread-local overflow test > became >=")
# ---------------------------------------------------------------- C05
mut("c05_async_forgets_value_size", ["C05"], CORE + "async_global_cache.rs",
    "                if current_mem - replaced_size + value_size <= max_mem {", "                if current_mem - replaced_size <= max_mem {",
    "async memory loop forgets the size of the incoming value")
mut("c05_global_oversize_check_dropped", ["C05"], CORE + "global_cache.rs",
    "            if new_value_size > max_mem {", "            if new_value_size > max_mem && false {",
    "global oversize value no longer rejected")
mut("c05_vec_estimator_len", ["C05"], CORE + "memory_estimator.rs",
    "        let buffer = self.capacity() * size_of::<T>();", "        let buffer = self.len() * size_of::<T>();",
    "Vec estimator counts len instead of capacity")
mut("c05_global_loop_strict", ["C05"], CORE + "global_cache.rs",
    "                if current_mem <= max_mem {\n                    break;\n                }",
    "                if current_mem < max_mem {\n                    break;\n                }",
    "global memory loop evicts although the total exactly fits")
mut("c05_thread_mem_loop_one_short", ["C05"], CORE + "thread_local_cache.rs",
    "                if current_mem <= max_mem {", "                if current_mem <= max_mem + 16 {",
    "thread-local memory loop stops 16 bytes early")
# ---------------------------------------------------------------- C06
mut("c06_sync_expiry_gt", ["C06"], CORE + "cache_entry.rs",
    "            self.inserted_at.elapsed().as_secs() >= ttl_secs", "            self.inserted_at.elapsed().as_secs() > ttl_secs",
    "sync expiry >= became >")
mut("c06_async_purge_forgets_queue", ["C06", "C04"], CORE + "async_global_cache.rs",
    "            let mut order = self.order.lock();\n            self.cache.remove(key);\n            order.retain(|k| k != key);",
    "            let _order = self.order.lock();\n            self.cache.remove(key);",
    "async expired lookup leaves the key in the queue")
mut("c06_async_purge_forgets_store", ["C06"], CORE + "async_global_cache.rs",
    "            let mut order = self.order.lock();\n            self.cache.remove(key);\n            order.retain(|k| k != key);",
    "            let mut order = self.order.lock();\n            order.retain(|k| k != key);",
    "async expired lookup leaves the entry in the store")
mut("c06_async_expiry_gt", ["C06"], CORE + "async_global_cache.rs",
    "                age >= ttl\n", "                age > ttl\n",
    "async expiry >= became >")
# ---------------------------------------------------------------- C07
mut("c07_global_lru_no_touch", ["C07"], CORE + "global_cache.rs",
    "                EvictionPolicy::LRU => {\n                    // Move key to end of order queue (most recently used)\n                    move_key_to_end(&mut self.order.lock(), key);\n                }",
    "                EvictionPolicy::LRU => {\n                    // Move key to end of order queue (most recently used)\n                }",
    "global LRU hit no longer updates recency")
mut("c07_async_lru_touch_needs_limit", ["C07"], CORE + "async_global_cache.rs",
    "                if (self.limit.is_some() || self.max_memory.is_some())", "                if (self.limit.is_some())",
    "async LRU recency only with an entry limit (reverts the D3 fix)")
mut("c07_async_mem_pops_back", ["C07"], CORE + "async_global_cache.rs",
    "                        if let Some(evict_key) = order.pop_front() {\n                            self.cache.remove(&evict_key);\n                            true",
    "                        if let Some(evict_key) = order.pop_back() {\n                            self.cache.remove(&evict_key);\n                            true",
    "async FIFO/LRU memory eviction takes the newest")
mut("c07_fifo_restore_keeps_position", ["C07"], CORE + "global_cache.rs",
    "        let mut o = self.order.lock();\n        if let Some(pos) = o.iter().position(|k| *k == key_s) {\n            o.remove(pos);\n        }\n        o.push_back(key_s.clone());\n\n        // Always handle",
    "        let mut o = self.order.lock();\n        if !o.iter().any(|k| *k == key_s) {\n            o.push_back(key_s.clone());\n        }\n\n        // Always handle",
    "global re-store keeps the old queue position")
# ---------------------------------------------------------------- C08
mut("c08_global_tlru_hits_not_counted", ["C08"], CORE + "global_cache.rs",
    "                    move_key_to_end(&mut self.order.lock(), key);\n                    self.increment_frequency(key);\n                }\n                EvictionPolicy::FIFO",
    "                    move_key_to_end(&mut self.order.lock(), key);\n                }\n                EvictionPolicy::FIFO",
    "global TLRU hits not counted")
mut("c08_async_arc_weight_reversed", ["C08"], CORE + "async_global_cache.rs",
    "                let position_weight = (idx + 1) as f64;\n                let score = frequency * position_weight;",
    "                let position_weight = (order.len() - idx) as f64;\n                let score = frequency * position_weight;",
    "async ARC recency weight reversed (reverts the D2 fix)")
mut("c08_async_lfu_no_count", ["C08"], CORE + "async_global_cache.rs",
    "                    EvictionPolicy::LFU => {\n                        // Increment frequency counter\n                        entry_ref.2 = entry_ref.2.saturating_add(1);\n                    }",
    "                    EvictionPolicy::LFU => {\n                        // Increment frequency counter\n                    }",
    "async LFU hits not counted")
mut("c08_async_tlru_ignores_weight", ["C08"], CORE + "async_global_cache.rs",
    "                        frequency.powf(weight)", "                        frequency.powf(1.0 / weight)",
    "async TLRU uses 1/weight as exponent")
# ---------------------------------------------------------------- C09
mut("c09_sync_std_result_spelling", ["C09"], "cachelito-macros/src/lib.rs",
    "        s.starts_with(\"Result<\") || s.starts_with(\"std::result::Result<\")", "        s.starts_with(\"Result<\")",
    "sync macro no longer recognises std::result::Result")
mut("c09_async_std_result_spelling", ["C09"], "cachelito-async-macros/src/lib.rs",
    "        if s.starts_with(\"Result<\") || s.starts_with(\"std::result::Result<\") {", "        if s.starts_with(\"Result<\") {",
    "async macro no longer recognises std::result::Result")
mut("c09_thread_insert_result_mem_stores_err", ["C09"], CORE + "thread_local_cache.rs",
    "    pub fn insert_result_with_memory(&self, key: &str, value: &Result<T, E>) {\n        if let Ok(val) = value {\n            self.insert_with_memory(key, Ok(val.clone()));\n        }",
    "    pub fn insert_result_with_memory(&self, key: &str, value: &Result<T, E>) {\n        self.insert_with_memory(key, value.clone());\n        if let Ok(_val) = value {\n        }",
    "thread-local memory-aware Result store caches Err")
# ---------------------------------------------------------------- C10
mut("c10_sync_pred_ignored_with_memory", ["C10"], "cachelito-macros/src/lib.rs",
    "    if let Some(pred_fn) = cache_if {\n        quote! {", "    if let (Some(pred_fn), false) = (cache_if, has_max_memory) {\n        quote! {",
    "sync cache_if ignored when max_memory is set")
mut("c10_async_pred_on_hit", ["C10"], "cachelito-async-macros/src/lib.rs",
    "        quote! {\n            return __cached;\n        }\n    };",
    "        quote! {\n            return __cached;\n        }\n    };\n    let invalidation_check = if let Some(pred_fn) = &attrs.cache_if { quote! { let _ = #pred_fn(&__key, &__cached); #invalidation_check } } else { invalidation_check };",
    "async cache_if additionally consulted on hits")
# ---------------------------------------------------------------- C11
mut("c11_sync_stale_returned", ["C11"], "cachelito-macros/src/lib.rs",
    "            if !#pred_fn(&__key, &cached) {\n                // Function returned false, entry is valid\n                return cached;\n            }",
    "            if !#pred_fn(&__key, &cached) || __key.len() > 3 {\n                // Function returned false, entry is valid\n                return cached;\n            }",
    "sync invalidate_on verdict ignored for keys longer than 3 characters")
# ---------------------------------------------------------------- C12
mut("c12_event_reads_tag_table", ["C12"], CORE + "invalidation.rs",
    "        let cache_names = self\n            .event_to_caches\n            .read()", "        let cache_names = self\n            .tag_to_caches\n            .read()",
    "invalidate_by_event looks the name up in the tag table")
mut("c12_sync_clear_keeps_queue", ["C13", "C04"], "cachelito-macros/src/lib.rs",
    "                            #cache_ident.write().clear();\n                            order_write.clear();",
    "                            #cache_ident.write().clear();\n                            let _ = &mut order_write;",
    "sync clear callback empties the store but not the queue")
mut("c12_dep_registered_as_tag", ["C12", "C13"], CORE + "invalidation.rs",
    "            let mut dep_map = self.dependency_to_caches.write();", "            let mut dep_map = self.tag_to_caches.write();",
    "dependencies are registered in the tag table")
# ---------------------------------------------------------------- C13
mut("c13_async_inv_with_keeps_queue", ["C13", "C04"], "cachelito-async-macros/src/lib.rs",
    "                        #cache_ident.remove(key);\n                        if let Some(pos) = order_write.iter().position(|k| k == key) {\n                            order_write.remove(pos);\n                        }",
    "                        #cache_ident.remove(key);\n                        let _ = &mut order_write;",
    "async invalidate_with removes the entry but not its queue slot")
mut("c13_all_with_swapped_args", ["C13"], CORE + "invalidation.rs",
    "            callback(&|key: &str| predicate(&cache_name_clone, key));", "            callback(&|key: &str| predicate(key, &cache_name_clone));",
    "invalidate_all_with passes (key, name) instead of (name, key)")
mut("c13_sync_inv_with_negated_on_long_keys", ["C13"], "cachelito-macros/src/lib.rs",
    "                            .filter(|k| check_fn(k.as_str()))", "                            .filter(|k| check_fn(k.as_str()) || k.contains('|'))",
    "sync invalidate_with also removes keys containing the separator")
# ---------------------------------------------------------------- C14
mut("c14_thread_scope_is_global", ["C14"], "cachelito-macros/src/lib.rs",
    "            if __scope == cachelito_core::CacheScope::ThreadLocal {", "            if __scope == cachelito_core::CacheScope::ThreadLocal && false {",
    "scope = \"thread\" silently uses the global cache")
# ---------------------------------------------------------------- C15
mut("c15_async_expired_counts_hit", ["C15"], CORE + "async_global_cache.rs",
    "            // Expired - remove and continue\n            drop(entry_ref);", "            // Expired - remove and continue\n            drop(entry_ref);\n            #[cfg(feature = \"stats\")]\n            self.stats.record_hit();",
    "async expired lookup also records a hit")
mut("c15_global_arc_double_hit", ["C15"], CORE + "global_cache.rs",
    "                EvictionPolicy::ARC => {\n                    // Adaptive Replacement: Update both recency (LRU) and frequency (LFU)",
    "                EvictionPolicy::ARC => {\n                    #[cfg(feature = \"stats\")]\n                    self.stats.record_hit();\n                    // Adaptive Replacement: Update both recency (LRU) and frequency (LFU)",
    "global ARC hit recorded twice")
mut("c15_reset_resets_all", ["C15"], CORE + "stats_registry.rs",
    "    if let Some(stats) = registry.get(name) {\n        stats.reset();\n        true",
    "    if registry.contains_key(name) {\n        registry.values().for_each(|s| s.reset());\n        true",
    "resetting one cache's statistics resets all")
# ---------------------------------------------------------------- C16
mut("c16_thread_lfu_reborrow", ["C16"], CORE + "thread_local_cache.rs",
    "                        if let Some(evict_key) = min_freq_key {\n                            self.remove_key_with_order(order, &evict_key);\n                        }",
    "                        if let Some(evict_key) = min_freq_key {\n                            self.remove_key(&evict_key);\n                        }",
    "thread-local LFU eviction re-borrows the queue (reverts the D4 fix)")
mut("c16_async_tlru_index_underflow", ["C16"], CORE + "async_global_cache.rs",
    "                let position_weight = (idx + 1) as f64;\n\n                // Calculate age factor", "                let position_weight = (order.len() - idx - self.limit.unwrap_or(0)) as f64;\n\n                // Calculate age factor",
    "async TLRU position arithmetic underflows when the queue is shorter than the limit")
# ---------------------------------------------------------------- C19
mut("c19_kb_1000", ["C19", "C05"], "cachelito-macro-utils/src/lib.rs",
    "                        Ok(n) => n * 1024,", "                        Ok(n) => n * 1000,",
    "KB multiplier 1000")
mut("c19_limit_plus_one", ["C19", "C04"], "cachelito-macro-utils/src/lib.rs",
    "                Ok(val) => quote! { Some(#val) },\n                Err(_) => quote! { compile_error!(\"limit must be", "                Ok(val) => { let val = val + 1; quote! { Some(#val) } }\n                Err(_) => quote! { compile_error!(\"limit must be",
    "limit spliced as limit + 1")
mut("c19_async_ttl_ignored_unless_tlru", ["C19", "C06"], "cachelito-async-macros/src/lib.rs",
    "    let ttl_expr = &attrs.ttl;", "    let ttl_none = quote! { Option::<u64>::None };\n    let ttl_expr = if attrs.policy.to_string().contains(\"lru\") { &attrs.ttl } else { &ttl_none };",
    "async ttl only honoured for lru/tlru policies")

# ---------------------------------------------------------------- concurrency (scheduled build)
mut("c17_inv_with_lock_order", ["C17"], "cachelito-macros/src/lib.rs",
    "                        let mut order_write = #order_ident.lock();\n                        let mut map_write = #cache_ident.write();",
    "                        let mut map_write = #cache_ident.write();\n                        let mut order_write = #order_ident.lock();",
    "sync invalidate_with callback locks map before order queue (reverts the D5 fix)")
mut("c17_global_get_expired_lock_order", ["C17"], CORE + "global_cache.rs",
    "            let mut o = self.order.lock();\n            // Acquire write lock to modify the map\n            let mut map_write = self.map.write();",
    "            // Acquire write lock to modify the map\n            let mut map_write = self.map.write();\n            let mut o = self.order.lock();",
    "expired path of the global get locks map before order queue")
mut("c18_sync_macro_clear_two_sections", ["C18"], "cachelito-macros/src/lib.rs",
    "                            let mut order_write = #order_ident.lock();\n                            #cache_ident.write().clear();\n                            order_write.clear();",
    "                            #cache_ident.write().clear();\n                            #order_ident.lock().clear();",
    "sync clear callback: two critical sections (reverts D6, site 1)")
mut("c18_async_macro_clear_two_sections", ["C18"], "cachelito-async-macros/src/lib.rs",
    "                        let mut order_write = #order_ident.lock();\n                        #cache_ident.clear();\n                        order_write.clear();",
    "                        #cache_ident.clear();\n                        #order_ident.lock().clear();",
    "async clear callback: two critical sections (reverts D6, site 2)")
mut("c18_global_clear_two_sections", ["C18"], CORE + "global_cache.rs",
    "        let mut order = self.order.lock();\n        self.map.write().clear();\n        order.clear();",
    "        self.map.write().clear();\n        self.order.lock().clear();",
    "GlobalCache::clear: two critical sections (reverts D6, site 3)")
mut("c18_async_expired_two_sections", ["C18"], CORE + "async_global_cache.rs",
    "            let mut order = self.order.lock();\n            self.cache.remove(key);\n            order.retain(|k| k != key);",
    "            self.cache.remove(key);\n            let mut order = self.order.lock();\n            order.retain(|k| k != key);",
    "async expired lookup: store and queue updated in two critical sections (reverts D6, site 4)")
mut("c15_counter_load_store", ["C15"], CORE + "stats.rs",
    "        self.hits.fetch_add(1, Ordering::Relaxed);", "        let v = self.hits.load(Ordering::Relaxed);\n        self.hits.store(v + 1, Ordering::Relaxed);",
    "hit counter incremented with load + store (lost update)")
mut("c03_async_remove_then_insert", ["C03"], CORE + "async_global_cache.rs",
    "        if self.cache.contains_key(key) {\n            order.retain(|k| k != key);\n            true",
    "        if self.cache.remove(key).is_some() {\n            order.retain(|k| k != key);\n            false",
    "async re-store removes the old entry before inserting the new one (transient absence)")
mut("c20_queue_preregistered", ["C20"], "cachelito-async-macros/src/lib.rs",
    "        // Execute original async function (cache miss or expired)\n        let __result = (async #block).await;",
    "        // Execute original async function (cache miss or expired)\n        #order_ident.lock().push_back(__key.clone());\n        let __result = (async #block).await;",
    "async wrapper registers the key in the order queue before awaiting the body")
mut("c20_guard_across_await", ["C20"], "cachelito-async-macros/src/lib.rs",
    "        // Execute original async function (cache miss or expired)\n        let __result = (async #block).await;",
    "        // Execute original async function (cache miss or expired)\n        let __guard = #order_ident.lock();\n        let __result = (async #block).await;\n        drop(__guard);",
    "async wrapper keeps the order-queue lock across the await of the body")
mut("c20_stats_miss_recorded_after_body", ["C20", "C15"], "cachelito-async-macros/src/lib.rs",
    "        // Cache the result (conditional based on cache_if predicate or default behavior)\n        #cache_insert",
    "        // Cache the result (conditional based on cache_if predicate or default behavior)\n        #cache_insert\n        let _ = __cache.get(&__key);",
    "async wrapper performs a second lookup after storing (touches recency / statistics after the body)")
mut("c16_global_fifo_eviction_never_ends", ["C16"], CORE + "global_cache.rs",
    "                            if map_write.contains_key(&evict_key) {\n                                map_write.remove(&evict_key);\n                                break;\n                            }\n                        }\n                    }\n                }\n            }\n        }\n    }\n}",
    "                            if map_write.contains_key(&evict_key) {\n                                o.push_front(evict_key.clone());\n                            }\n                        }\n                    }\n                }\n            }\n        }\n    }\n}",
    "global FIFO/LRU entry-limit eviction loop never terminates (hang, not panic)")
