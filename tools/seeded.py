#!/usr/bin/env python3
"""Confirms a seeded change delivered by a sub-agent and runs the checks against it.

  seeded.py add <worktree> <variant a|b> <PROP> [--checks C04,C05,...]

1. in a scratch worktree of /repo's HEAD (/tmp/sv): the diff applies, the whole workspace
   builds, every pre-existing test passes, the demonstration fails with the change and passes
   without it;
2. the diff is applied to /repo, the quick checks are run, the diff is undone;
3. patch, demonstration and meta.json are stored under /verif/seeded/<id>/.
"""
import json
import os
import re
import shutil
import subprocess
import sys
import time

ROOT = os.path.dirname(os.path.dirname(os.path.abspath(__file__)))
REPO = "/repo"
# scratch worktree used to confirm a change (suite + demonstration)
SV = os.environ.get("VERIF_SCRATCH", "/tmp/sv")
# the tree the checks build: /repo itself, or the scratch worktree when run from a copy (tools/mkcopy.sh)
TARGET_REPO = os.environ.get("VERIF_TARGET_REPO", "/repo")
OUT_ROOT = os.environ.get("VERIF_SEEDED_OUT", os.path.join(ROOT, "seeded"))
ENV = dict(os.environ, CARGO_NET_OFFLINE="true")


def sh(cmd, cwd=None, env=ENV, timeout=None):
    try:
        return subprocess.run(cmd, shell=isinstance(cmd, str), cwd=cwd, env=env, stdout=subprocess.PIPE, stderr=subprocess.STDOUT, text=True, timeout=timeout)
    except subprocess.TimeoutExpired as e:
        # a test binary that never returns (deadlock demonstrations): end it
        subprocess.run("for p in $(ps aux | grep '/target/debug/deps/' | grep -v grep | awk '{print $2}'); do kill -9 $p; done", shell=True)
        out = e.stdout.decode(errors="replace") if isinstance(e.stdout, bytes) else (e.stdout or "")
        return subprocess.CompletedProcess(cmd, 124, out + "\nTIMEOUT", None)


def ensure_sv():
    head = sh(["git", "-C", REPO, "rev-parse", "HEAD"]).stdout.strip()
    if os.path.exists(SV):
        cur = sh(["git", "-C", SV, "rev-parse", "HEAD"]).stdout.strip()
        sh(["git", "-C", SV, "reset", "--hard", "-q"])
        sh(["git", "-C", SV, "clean", "-fdq", "--exclude=target"])
        if cur != head:
            sh(["git", "-C", SV, "checkout", "-q", "--detach", head])
    else:
        sh(["git", "-C", REPO, "worktree", "add", "-q", "--detach", SV, head])


def demo_place(demo_path, prop, variant):
    first = open(demo_path).read().splitlines()[:6]
    text = " ".join(first)
    m = re.search(r"((?:cachelito-async/)?tests/[A-Za-z0-9_]+\.rs)", text)
    if m:
        return m.group(1)
    return f"tests/demo_{prop}_{variant}.rs"


def run_suite(cwd):
    p = sh("cargo test --workspace --no-fail-fast --offline 2>&1", cwd=cwd, timeout=2400)
    passed = failed = 0
    failed_tests = []
    for l in p.stdout.splitlines():
        if l.startswith("test result"):
            w = l.split()
            passed += int(w[3])
            failed += int(w[5])
        m = re.match(r"^test (\S+) \.\.\. FAILED", l)
        if m:
            failed_tests.append(m.group(1))
    compile_error = "error: could not compile" in p.stdout or "error[E" in p.stdout
    return passed, failed, failed_tests, compile_error, p.stdout


def run_demo(cwd, place):
    name = os.path.basename(place)[:-3]
    if place.startswith("cachelito-async/"):
        cmd = f"cargo test -p cachelito-async --test {name} --offline 2>&1"
    else:
        cmd = f"cargo test -p cachelito --test {name} --offline 2>&1"
    p = sh(cmd, cwd=cwd, timeout=600)
    if p.returncode == 124:
        # a demonstration that never returns (deadlock demos) counts as failing
        return False, True, p.stdout
    ok = re.search(r"test result: ok", p.stdout) is not None and "FAILED" not in p.stdout
    ran = "test result" in p.stdout
    return ok, ran, p.stdout


def main():
    wt, variant, prop = sys.argv[2], sys.argv[3], sys.argv[4]
    checks = None
    if "--checks" in sys.argv:
        checks = sys.argv[sys.argv.index("--checks") + 1].split(",")
    diff = os.path.join(wt, f"variant_{variant}.diff")
    demo = os.path.join(wt, f"variant_{variant}_demo.rs")
    note = os.path.join(wt, f"variant_{variant}.md")
    sid = f"{prop}_{variant}"
    if "--id" in sys.argv:
        sid = sys.argv[sys.argv.index("--id") + 1]
    out = os.path.join(OUT_ROOT, sid)
    commit = ""
    if os.path.exists(os.path.join(ROOT, "COMMIT")):
        commit = open(os.path.join(ROOT, "COMMIT")).read().strip()
    else:
        commit = sh(["git", "-C", ROOT, "rev-parse", "--short", "HEAD"]).stdout.strip()
    meta = {"id": sid, "property": prop, "source": "independent sub-agent given only the property text", "checks_at_verif_commit": commit,
            "repo_commit": sh(["git", "-C", REPO, "rev-parse", "--short", "HEAD"]).stdout.strip(), "confirmed": {}}
    ensure_sv()
    # -- 1. confirm in the scratch worktree
    ap = sh(["git", "-C", SV, "apply", "--check", diff])
    if ap.returncode != 0:
        ap3 = sh(["git", "-C", SV, "apply", "-3", diff])
        if ap3.returncode != 0:
            sh(["git", "-C", SV, "reset", "--hard", "-q"])
            print(sid, "DIFF DOES NOT APPLY to the current tree:", ap.stdout.strip()[:300])
            meta["confirmed"]["applies"] = False
            os.makedirs(out, exist_ok=True)
            json.dump(meta, open(os.path.join(out, "meta.json"), "w"), indent=1)
            return 1
        # keep the 3-way result as the patch for the current tree
        newdiff = sh(["git", "-C", SV, "diff"]).stdout
        sh(["git", "-C", SV, "checkout", "--", "."])
        sh(["git", "-C", SV, "reset", "-q"])
        diff_text = newdiff
    else:
        diff_text = open(diff).read()
    os.makedirs(out, exist_ok=True)
    open(os.path.join(out, "patch.diff"), "w").write(diff_text)
    place = demo_place(demo, prop, variant)
    shutil.copy(demo, os.path.join(out, os.path.basename(place)))
    if os.path.exists(note):
        shutil.copy(note, os.path.join(out, "note.md"))
    patch = os.path.join(out, "patch.diff")
    # demonstration without the change
    shutil.copy(demo, os.path.join(SV, place))
    ok0, ran0, log0 = run_demo(SV, place)
    # with the change: the demonstration, then the whole pre-existing suite (without the demonstration,
    # which may never return when the change is a deadlock)
    a = sh(["git", "-C", SV, "apply", patch])
    assert a.returncode == 0, a.stdout
    demo_name = os.path.basename(place)[:-3]
    ok1, ran1, log1 = run_demo(SV, place)
    os.remove(os.path.join(SV, place))
    passed, failed, failed_tests, cerr, log = run_suite(SV)
    shutil.copy(demo, os.path.join(SV, place))
    sh(["git", "-C", SV, "checkout", "--", "."])
    os.remove(os.path.join(SV, place))
    demo_tests_failed = failed - 0
    meta["confirmed"] = {
        "applies": True,
        "compiles": not cerr,
        "demo_passes_without_change": bool(ok0 and ran0),
        "demo_fails_with_change": bool(ran1 and not ok1),
        "suite_with_change": {"passed": passed, "failed": failed, "failed_tests": failed_tests},
        "ran": ["cargo test --workspace --no-fail-fast --offline (with the change, demonstration included)",
                f"cargo test --test {demo_name} with and without the change"],
    }
    # every failure must belong to the demonstration
    demo_fn_names = set(re.findall(r"fn\s+([A-Za-z0-9_]+)\s*\(", open(demo).read()))
    foreign = [t for t in failed_tests if t.split("::")[-1] not in demo_fn_names]
    if foreign and not cerr:
        # the suite has real-time (sleep-based) TTL tests that fail under heavy machine load: a
        # pre-existing test counts as broken by the change only if it fails in a second run too
        a2 = sh(["git", "-C", SV, "apply", patch])
        shutil.copy(demo, os.path.join(SV, place))
        _p2, _f2, failed2, cerr2, _ = run_suite(SV)
        sh(["git", "-C", SV, "checkout", "--", "."])
        os.remove(os.path.join(SV, place))
        foreign = [t for t in foreign if t in failed2]
        meta["confirmed"]["suite_rerun_failed_tests"] = failed2
    meta["confirmed"]["existing_tests_pass_with_change"] = (not cerr) and not foreign
    valid = meta["confirmed"]["existing_tests_pass_with_change"] and meta["confirmed"]["demo_passes_without_change"] and meta["confirmed"]["demo_fails_with_change"]
    meta["valid"] = bool(valid)
    print(sid, "confirmation:", json.dumps(meta["confirmed"])[:600], flush=True)
    # -- 2. the checks
    if valid:
        assert sh(["git", "-C", TARGET_REPO, "status", "--porcelain", "--untracked-files=no"]).stdout.strip() == "", "target tree dirty"
        a = sh(["git", "-C", TARGET_REPO, "apply", patch])
        assert a.returncode == 0, a.stdout
        results = {}
        try:
            sys.path.insert(0, os.path.join(ROOT, "bin"))
            from plan import PLAN
            todo = checks or [prop] + [p for p in sorted(PLAN) if p != prop]
            for p in todo:
                if p not in PLAN:
                    results[p] = "no-check"
                    continue
                t = time.time()
                r = sh([os.path.join(ROOT, "bin", "check"), p, "quick"], cwd=ROOT)
                v = [l for l in r.stdout.splitlines() if l.startswith("VIOLATION ")]
                detail = [l.strip() for l in r.stdout.splitlines() if l.startswith("  clause=")]
                if r.returncode == 1 and v:
                    rp = v[0].split("replay=")[1].strip()
                    rr = sh([os.path.join(ROOT, "bin", "replay"), rp], cwd=ROOT)
                    results[p] = {"verdict": "caught", "clause": detail[:1], "replay_reproduces": rr.returncode == 1, "s": round(time.time() - t, 1)}
                elif r.returncode == 0:
                    results[p] = {"verdict": "silent", "s": round(time.time() - t, 1)}
                else:
                    results[p] = {"verdict": f"exit {r.returncode}", "tail": r.stdout[-800:]}
                print("  ", p, results[p], flush=True)
        finally:
            sh(["git", "-C", TARGET_REPO, "checkout", "--", "."])
        meta["checks"] = results
        meta["caught_by"] = sorted(p for p, v in results.items() if isinstance(v, dict) and v.get("verdict") == "caught")
        meta["caught_by_own_property_check"] = prop in meta["caught_by"]
    if os.path.exists(note):
        meta["needs_to_manifest"] = open(note).read()[:1500]
    json.dump(meta, open(os.path.join(out, "meta.json"), "w"), indent=1)
    print(sid, "valid" if valid else "INVALID", "caught by", meta.get("caught_by"))
    return 0


if __name__ == "__main__":
    sys.exit(main())
