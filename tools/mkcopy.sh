#!/bin/sh
# tools/mkcopy.sh <n>: a private copy of the checks under /tmp/vcopy<n> that builds the scratch
# worktree /tmp/sv<n> instead of /repo, so that mutants / seeded changes can be tried without
# touching /repo (and several such jobs can run side by side).
set -e
n=${1:-1}
rm -rf /tmp/vcopy$n
mkdir -p /tmp/vcopy$n
rsync -a --exclude .git --exclude replays --exclude evidence --exclude work --exclude seeded /verif/ /tmp/vcopy$n/
grep -rl '"/repo/' /tmp/vcopy$n/sim/*/shadow/*/Cargo.toml | xargs sed -i "s#\"/repo/#\"/tmp/sv$n/#"
if [ ! -d /tmp/sv$n ]; then git -C /repo worktree add -q --detach /tmp/sv$n HEAD; fi
git -C /tmp/sv$n reset --hard -q
git -C /tmp/sv$n checkout -q --detach "$(git -C /repo rev-parse HEAD)"
mkdir -p /tmp/vcopy$n/work
git -C /verif rev-parse --short HEAD > /tmp/vcopy$n/COMMIT
echo "export VERIF_TARGET_REPO=/tmp/sv$n VERIF_SCRATCH=/tmp/sv$n VERIF_SEEDED_OUT=/verif/seeded"
