#!/bin/sh
# usage: run_refactors.sh <n> <rf index>...
n=$1; shift
cd /tmp/vcopy$n
export VERIF_TARGET_REPO=/tmp/sv$n VERIF_SCRATCH=/tmp/sv$n VERIF_REFACTORS_OUT=/verif/refactors
for i in "$@"; do
  for v in a b c; do
    if [ -f /tmp/rf_$i/variant_$v.diff ]; then
      python3 tools/refactors.py add /tmp/rf_$i $v R${i}_$v >> /verif/work/refactors_$n.log 2>&1
    fi
  done
done
echo DONE >> /verif/work/refactors_$n.log
