#!/usr/bin/env python3
"""Self-checks of the machinery.

  selftest.py sensitivity [ids...]   apply each mutant of tools/mutants.py to /repo, run the quick
                                     checks expected to catch it, undo it; report caught/missed
  selftest.py validate [ids...]      in a scratch copy: each mutant must compile and pass the
                                     repository's own test suite (guard off)
  selftest.py determinism            same seeds twice, at two worker counts: digests must agree
  selftest.py silence N              every quick check with N other VERIF_SEED values: exit 0
"""
import json
import os
import shutil
import subprocess
import sys
import time

ROOT = os.path.dirname(os.path.dirname(os.path.abspath(__file__)))
sys.path.insert(0, os.path.join(ROOT, "tools"))
sys.path.insert(0, os.path.join(ROOT, "bin"))
from mutants import M  # noqa: E402

# the tree the checks build: /repo, or a scratch worktree when run from a copy made by tools/mkcopy.sh
REPO = os.environ.get("VERIF_TARGET_REPO", "/repo")


def sh(cmd, **kw):
    return subprocess.run(cmd, shell=isinstance(cmd, str), stdout=subprocess.PIPE, stderr=subprocess.STDOUT, text=True, **kw)


def apply_mutant(m, repo=REPO):
    path = os.path.join(repo, m["file"])
    s = open(path).read()
    n = s.count(m["old"])
    if n < 1:
        return False, f"pattern not found in {m['file']}"
    s = s.replace(m["old"], m["new"], m.get("count", 1))
    open(path, "w").write(s)
    return True, ""


def revert(repo=REPO):
    sh(["git", "-C", repo, "checkout", "--", "."])


def sensitivity(ids):
    assert sh(["git", "-C", REPO, "status", "--porcelain"]).stdout.strip() == "", "/repo has uncommitted changes"
    results = []
    for m in M:
        if ids and m["id"] not in ids:
            continue
        ok, why = apply_mutant(m)
        if not ok:
            results.append((m["id"], "NOT-APPLIED", why))
            print(m["id"], "NOT-APPLIED", why, flush=True)
            continue
        try:
            row = {}
            for prop in m["props"]:
                t = time.time()
                p = sh([os.path.join(ROOT, "bin", "check"), prop, "quick"], cwd=ROOT)
                caught = p.returncode == 1 and "VIOLATION property=" + prop in p.stdout
                row[prop] = ("caught" if caught else f"MISSED(exit {p.returncode})", round(time.time() - t, 1))
                if caught:
                    # the replay file must reproduce in a fresh process
                    line = [l for l in p.stdout.splitlines() if l.startswith("VIOLATION ")][0]
                    rp = line.split("replay=")[1].strip()
                    r = sh([os.path.join(ROOT, "bin", "replay"), rp], cwd=ROOT)
                    if r.returncode != 1:
                        row[prop] = (f"caught-but-replay-exit-{r.returncode}", row[prop][1])
                elif p.returncode == 2:
                    print(p.stdout[-2000:])
            results.append((m["id"], row, m["note"]))
            print(m["id"], row, flush=True)
        finally:
            revert()
    # leave the build in the unmutated state
    json.dump(results, open(os.path.join(ROOT, "work", "sensitivity.json"), "w"), indent=1)
    missed = [r for r in results if isinstance(r[1], dict) and not any(v[0] == "caught" for v in r[1].values())]
    print(f"\n{len(results)} mutants, {len(missed)} not caught by any expected check")
    for r in missed:
        print("  MISSED", r[0], r[1])
    return 0 if not missed else 1


def validate(ids):
    scratch = "/tmp/mutrepo"
    if os.path.exists(scratch):
        shutil.rmtree(scratch)
    sh(["git", "clone", "-q", REPO, scratch])
    env = dict(os.environ, CARGO_NET_OFFLINE="true", CARGO_TARGET_DIR=scratch + "/target")
    out = []
    try:
        for m in M:
            if ids and m["id"] not in ids:
                continue
            ok, why = apply_mutant(m, scratch)
            if not ok:
                out.append((m["id"], "NOT-APPLIED"))
                print(m["id"], "NOT-APPLIED", why, flush=True)
                continue
            p = subprocess.run("cargo test --workspace --no-fail-fast --offline 2>&1 | grep -E '^test result|error(\\[|:)' ", shell=True, cwd=scratch, env=env,
                               stdout=subprocess.PIPE, text=True)
            passed = failed = 0
            err = False
            for l in p.stdout.splitlines():
                if l.startswith("test result"):
                    w = l.split()
                    passed += int(w[3])
                    failed += int(w[5])
                elif "error" in l:
                    err = True
            verdict = "ok" if (failed == 0 and not err and passed >= 401) else f"BAD passed={passed} failed={failed} err={err}"
            out.append((m["id"], verdict))
            print(m["id"], verdict, flush=True)
            revert(scratch)
    finally:
        shutil.rmtree(scratch, ignore_errors=True)
    json.dump(out, open(os.path.join(ROOT, "work", "mutant_validation.json"), "w"), indent=1)
    return 0


def determinism():
    from plan import PLAN
    bad = 0
    for prop, plan in sorted(PLAN.items()):
        for part in plan["parts"]:
            binary = os.path.join(ROOT, "sim", part["ws"], "target", "release", part["bin"])
            outs = []
            for rep in range(2):
                cmd = [binary, "run", "--prop", prop, "--engine", part["engine"], "--seed", "424242", "--start", "0", "--runs", "1500",
                       "--replay-dir", "/tmp/selftest-replays", "--digests"]
                p = sh(cmd)
                outs.append([l for l in p.stdout.splitlines() if l.startswith("DIGEST ")])
            # the same runs split differently over processes
            split = []
            for start in (0, 500, 1000):
                cmd = [binary, "run", "--prop", prop, "--engine", part["engine"], "--seed", "424242", "--start", str(start), "--runs", "500",
                       "--replay-dir", "/tmp/selftest-replays", "--digests"]
                split += [l for l in sh(cmd).stdout.splitlines() if l.startswith("DIGEST ")]
            same = outs[0] == outs[1] == split and len(outs[0]) >= 1500
            print(prop, part["engine"], "deterministic" if same else "DIVERGED", len(outs[0]), flush=True)
            bad += 0 if same else 1
    return 2 if bad else 0


def silence(n):
    from plan import PLAN
    bad = 0
    for i in range(n):
        seed = 1000 + i * 7919
        for prop in sorted(PLAN):
            p = sh([os.path.join(ROOT, "bin", "check"), prop, "quick"], cwd=ROOT, env=dict(os.environ, VERIF_SEED=str(seed)))
            if p.returncode != 0:
                bad += 1
                print("ALARM", prop, seed, p.stdout[-1500:], flush=True)
        print("seed", seed, "done", flush=True)
    print("alarms:", bad)
    return 1 if bad else 0


if __name__ == "__main__":
    cmd = sys.argv[1] if len(sys.argv) > 1 else ""
    if cmd == "sensitivity":
        sys.exit(sensitivity(sys.argv[2:]))
    if cmd == "validate":
        sys.exit(validate(sys.argv[2:]))
    if cmd == "determinism":
        sys.exit(determinism())
    if cmd == "silence":
        sys.exit(silence(int(sys.argv[2]) if len(sys.argv) > 2 else 3))
    print(__doc__)
    sys.exit(2)
