"""Which engines decide which property, and how many runs each tier spends."""

L1 = {"ws": "real", "bin": "simreal", "engine": "l1"}


def l1(quick, thorough):
    return dict(L1, quick=quick, thorough=thorough)


PLAN = {
    "C01": {"level": "exploration", "parts": [l1(480_000, 16_000_000)]},
    "C04": {"level": "exploration", "parts": [l1(480_000, 16_000_000)]},
    "C05": {"level": "exploration", "parts": [l1(480_000, 16_000_000)]},
    "C06": {"level": "exploration", "parts": [l1(480_000, 16_000_000)]},
    "C07": {"level": "exploration", "parts": [l1(480_000, 16_000_000)]},
    "C08": {"level": "exploration", "parts": [l1(480_000, 16_000_000)]},
    "C16": {
        "level": "exploration",
        "parts": [l1(64 * 3456, 2000 * 3456)],
        "coverage_extra": lambda agg: {
            "configurations_enumerated": len(agg.get("l1", {}).get("states", [])),
            "configuration_product": 3456,
        },
    },
}

ASSUMPTIONS = [
    "sampling, not proof: a clean batch is evidence over the stated bounds (<= 8 keys, histories of <= 60 operations, limits 1-4, ttl 1-3 s)",
    "the reference model (sim/simcore/src/model.rs, written from the property text) is the trusted oracle",
    "the simulated clock replaces Instant/SystemTime through the cfg(cachelito_verif) seam; fastrand is re-seeded per run",
    "trusted: rustc/cargo, the python driver, serde_json",
]

COMPONENTS = {
    "l1": {
        "real": ["cachelito-core (GlobalCache, ThreadLocalCache, AsyncGlobalCache, CacheEntry, utils, MemoryEstimator impls, CacheStats) compiled from /repo's working tree", "parking_lot", "dashmap", "once_cell", "fastrand"],
        "stand_in": ["clock (verif_seams::sim_std::time)", "values and sizes (harness-built)"],
    },
}
