"""Which engines decide which property, and how many runs each tier spends."""

L1 = {"ws": "real", "bin": "simreal", "engine": "l1"}


def l1(quick, thorough):
    return dict(L1, quick=quick, thorough=thorough)


L2 = {"ws": "real", "bin": "simreal", "engine": "l2"}


def l2(quick, thorough):
    return dict(L2, quick=quick, thorough=thorough)


SCHED = {"ws": "sched", "bin": "simsched", "engine": "sched", "chunk": 25_000}
POLL = {"ws": "sched", "bin": "simsched", "engine": "poll", "chunk": 1_000}


def sched(quick, thorough):
    return dict(SCHED, quick=quick, thorough=thorough)


def poll(quick, thorough):
    return dict(POLL, quick=quick, thorough=thorough)


def both(q1=320_000, t1=12_000_000, q2=96_000, t2=4_000_000):
    return [l1(q1, t1), l2(q2, t2)]


PLAN = {
    "C01": {"level": "exploration", "parts": both() + [poll(16_000, 400_000)]},
    "C03": {"level": "exploration", "parts": [l2(160_000, 6_000_000), sched(400_000, 8_000_000)]},
    "C04": {"level": "exploration", "parts": both() + [sched(300_000, 6_000_000)]},
    "C05": {"level": "exploration", "parts": both()},
    "C06": {"level": "exploration", "parts": both()},
    "C07": {"level": "exploration", "parts": both()},
    "C08": {"level": "exploration", "parts": both()},
    "C09": {"level": "exploration", "parts": [l2(160_000, 6_000_000), poll(16_000, 400_000)]},
    "C10": {"level": "exploration", "parts": [l2(160_000, 6_000_000), poll(16_000, 400_000)]},
    "C11": {"level": "exploration", "parts": [l2(160_000, 6_000_000), poll(16_000, 400_000)]},
    "C12": {"level": "exploration", "parts": [l2(160_000, 6_000_000), sched(400_000, 8_000_000)]},
    "C13": {"level": "exploration", "parts": [l2(160_000, 6_000_000), sched(300_000, 6_000_000)]},
    "C14": {"level": "exploration", "parts": [l2(96_000, 3_000_000), sched(300_000, 6_000_000)]},
    "C15": {"level": "exploration", "parts": [l2(160_000, 6_000_000), sched(400_000, 8_000_000)]},
    "C17": {"level": "exploration", "parts": [sched(800_000, 16_000_000)]},
    "C18": {"level": "exploration", "parts": [sched(800_000, 16_000_000)]},
    "C20": {
        "level": "fault_enumeration",
        "parts": [poll(64_000, 1_600_000)],
        "coverage_extra": lambda agg: {
            "fault_points_enumerated": "for every generated case: every poll boundary 0..=awaits of the victim body x {resume, drop}",
            "executions_per_fault_point": {k[6:]: v for k, v in agg.get("poll", {}).get("counters", {}).items() if k.startswith("fault.")},
            "async_functions_used_as_victim": len({k for k in agg.get("poll", {}).get("counters", {}) if k.startswith("family.")}),
        },
    },
    "C19": {"level": "exploration", "parts": [dict(ws="real", bin="simreal", engine="diff", quick=160_000, thorough=6_000_000)], "reject": True},
    "C16": {
        "level": "exploration",
        "parts": [l1(64 * 3456, 2000 * 3456), l2(100_000, 4_000_000), sched(300_000, 6_000_000)],
        "coverage_extra": lambda agg: {
            "configurations_enumerated": len(agg.get("l1", {}).get("states", [])),
            "configuration_product": 3456,
        },
    },
}

ASSUMPTIONS = [
    "sampling, not proof: a clean batch is evidence over the stated bounds (<= 8 keys, histories of <= 60 operations, limits 1-4, ttl 1-3 s)",
    "the reference model (sim/simcore/src/model.rs, written from the property text) is the trusted oracle",
    "the simulated clock replaces Instant/SystemTime through the cfg(cachelito_verif) seam; fastrand is re-seeded per run",
    "trusted: rustc/cargo, the python driver, serde_json",
]

COMPONENTS = {
    "diff": {
        "real": ["cachelito-macros / cachelito-async-macros expansions of the ~290-function corpus", "cachelito-core caches constructed directly (same build)", "parking_lot", "dashmap", "once_cell", "fastrand (re-seeded identically for both sides)"],
        "stand_in": ["clock", "bodies / predicates (scripted)", "the wrapper logic restated in sim/real/harness/src/diff.rs for the directly configured side"],
    },
    "sched": {
        "real": ["cachelito-core, cachelito-macros, cachelito-async-macros, cachelito-macro-utils compiled from /repo (same sources)", "the corpus expansions", "fastrand"],
        "stand_in": ["parking_lot::{Mutex,RwLock} = sim/shims/parking_lot on shuttle::sync", "dashmap::DashMap = sim/shims/dashmap (1/2/4 shards of scheduled RwLock<BTreeMap>)", "once_cell::sync::{Lazy,OnceCell} = sim/shims/once_cell (execution-scoped, scheduled Once)", "std::sync::Once in expansions = shuttle::sync::Once", "thread scheduler = shuttle RandomScheduler / PctScheduler seeded per execution", "clock, registry map ordering (seams)", "statistics atomics get a scheduling point before every operation (seam)"],
    },
    "poll": {
        "real": ["cachelito-core and cachelito-async-macros compiled from /repo", "the async corpus expansions (real generated futures)"],
        "stand_in": ["executor = the simulator polling by hand with a no-op waker", "lock shims as in sched (a guard kept across an await is reported instead of hanging)", "clock, bodies, predicates"],
    },
    "l2": {
        "real": ["cachelito-macros and cachelito-async-macros (proc-macros compiled from /repo, expanding the 250-function corpus)", "cachelito-macro-utils", "cachelito-core incl. InvalidationRegistry and stats_registry", "parking_lot", "dashmap", "once_cell", "std::sync::Once", "real OS threads as actors (one runs at a time)", "fastrand"],
        "stand_in": ["clock (verif_seams::sim_std::time)", "registry map ordering (BTreeMap via verif_seams::sim_std_det)", "decorated bodies, predicates and estimator of the user type (harness world)", "async executor (the simulator polls the futures itself)"],
    },
    "l1": {
        "real": ["cachelito-core (GlobalCache, ThreadLocalCache, AsyncGlobalCache, CacheEntry, utils, MemoryEstimator impls, CacheStats) compiled from /repo's working tree", "parking_lot", "dashmap", "once_cell", "fastrand"],
        "stand_in": ["clock (verif_seams::sim_std::time)", "values and sizes (harness-built)"],
    },
}
