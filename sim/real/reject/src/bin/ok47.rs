// #[cache_async(limit = 2, policy = "tlru", ttl = 3, frequency_weight = 2)] must be accepted
#![allow(dead_code)]
use cachelito_async_macros::cache_async;
#[cache_async(limit = 2, policy = "tlru", ttl = 3, frequency_weight = 2)]
pub async fn f(x: u32) -> u32 { x }
fn main() {}
