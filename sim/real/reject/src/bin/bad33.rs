// #[cache_async(ttl = "10")] must be rejected at compile time
#![allow(dead_code)]
use cachelito_async_macros::cache_async;
#[cache_async(ttl = "10")]
pub async fn f(x: u32) -> u32 { x }
fn main() {}
