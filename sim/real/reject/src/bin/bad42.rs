// #[cache_async(max_memory = 2.5)] must be rejected at compile time
#![allow(dead_code)]
use cachelito_async_macros::cache_async;
#[cache_async(max_memory = 2.5)]
pub async fn f(x: u32) -> u32 { x }
fn main() {}
