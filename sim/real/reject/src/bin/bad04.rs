// #[cache(event = ["a"])] must be rejected at compile time
#![allow(dead_code)]
use cachelito_macros::cache;
#[cache(event = ["a"])]
pub fn f(x: u32) -> u32 { x }
fn main() {}
