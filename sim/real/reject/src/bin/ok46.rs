// #[cache(limit = 2, policy = "lru")] must be accepted
#![allow(dead_code)]
use cachelito_macros::cache;
#[cache(limit = 2, policy = "lru")]
pub fn f(x: u32) -> u32 { x }
fn main() {}
