// #[cache(policy = lru)] must be rejected at compile time
#![allow(dead_code)]
use cachelito_macros::cache;
#[cache(policy = lru)]
pub fn f(x: u32) -> u32 { x }
fn main() {}
