// #[cache(policy = 5)] must be rejected at compile time
#![allow(dead_code)]
use cachelito_macros::cache;
#[cache(policy = 5)]
pub fn f(x: u32) -> u32 { x }
fn main() {}
