// #[cache(frequency = 1.0)] must be rejected at compile time
#![allow(dead_code)]
use cachelito_macros::cache;
#[cache(frequency = 1.0)]
pub fn f(x: u32) -> u32 { x }
fn main() {}
