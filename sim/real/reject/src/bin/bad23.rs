// #[cache(scope = "Thread")] must be rejected at compile time
#![allow(dead_code)]
use cachelito_macros::cache;
#[cache(scope = "Thread")]
pub fn f(x: u32) -> u32 { x }
fn main() {}
