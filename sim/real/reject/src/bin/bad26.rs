// #[cache(limit = 1.5)] must be rejected at compile time
#![allow(dead_code)]
use cachelito_macros::cache;
#[cache(limit = 1.5)]
pub fn f(x: u32) -> u32 { x }
fn main() {}
