// #[cache(scope = 3)] must be rejected at compile time
#![allow(dead_code)]
use cachelito_macros::cache;
#[cache(scope = 3)]
pub fn f(x: u32) -> u32 { x }
fn main() {}
