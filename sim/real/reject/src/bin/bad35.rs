// #[cache(max_memory = "10XB")] must be rejected at compile time
#![allow(dead_code)]
use cachelito_macros::cache;
#[cache(max_memory = "10XB")]
pub fn f(x: u32) -> u32 { x }
fn main() {}
