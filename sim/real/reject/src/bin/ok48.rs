// #[cache(max_memory = "1kb", scope = "thread")] must be accepted
#![allow(dead_code)]
use cachelito_macros::cache;
#[cache(max_memory = "1kb", scope = "thread")]
pub fn f(x: u32) -> u32 { x }
fn main() {}
