// #[cache(limit)] must be rejected at compile time
#![allow(dead_code)]
use cachelito_macros::cache;
#[cache(limit)]
pub fn f(x: u32) -> u32 { x }
fn main() {}
