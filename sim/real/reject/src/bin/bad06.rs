// #[cache(limit = 2, polcy = "lru")] must be rejected at compile time
#![allow(dead_code)]
use cachelito_macros::cache;
#[cache(limit = 2, polcy = "lru")]
pub fn f(x: u32) -> u32 { x }
fn main() {}
