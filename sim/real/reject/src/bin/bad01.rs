// #[cache(foo = "bar")] must be rejected at compile time
#![allow(dead_code)]
use cachelito_macros::cache;
#[cache(foo = "bar")]
pub fn f(x: u32) -> u32 { x }
fn main() {}
