//! Shared worker plumbing: batch arguments, replay files, result line.

use simcore::check::Clause;
use simcore::report::*;
use simcore::rng::mix;
use std::collections::BTreeSet;
use std::path::PathBuf;
use std::time::Instant;

#[derive(Clone, Debug)]
pub struct BatchArgs {
    pub prop: String,
    pub engine: String,
    pub seed: u64,
    pub start: u64,
    pub runs: u64,
    pub replay_dir: PathBuf,
    pub known: BTreeSet<String>,
    pub time_limit_s: f64,
    pub log_digests: bool,
}

impl BatchArgs {
    pub fn run_seed(&self, run: u64) -> u64 {
        mix(&[self.seed, hash_str(&self.prop), hash_str(&self.engine), run])
    }
}

pub struct Batch {
    pub args: BatchArgs,
    pub res: WorkerResult,
    pub started: Instant,
    pub known_hits: BTreeSet<String>,
}

impl Batch {
    pub fn new(args: BatchArgs, rule: &str) -> Self {
        let res = WorkerResult {
            property: args.prop.clone(),
            engine: args.engine.clone(),
            rule: rule.to_string(),
            ..Default::default()
        };
        Batch { args, res, started: Instant::now(), known_hits: BTreeSet::new() }
    }

    pub fn out_of_time(&self) -> bool {
        self.args.time_limit_s > 0.0 && self.started.elapsed().as_secs_f64() > self.args.time_limit_s
    }

    /// Records a violation: writes the replay file, prints the VIOLATION line.
    /// Returns true if the batch must stop (a violation that is not a listed known finding).
    pub fn violation(&mut self, clause: &Clause, signature: String, run_seed: u64, case: serde_json::Value) -> bool {
        let prop = self.args.prop.clone();
        if self.args.known.contains(&signature) {
            if self.known_hits.insert(signature.clone()) {
                println!("KNOWN-FINDING: property={prop} {signature} {}", clause.detail);
            }
            self.res.counters.inc("known_finding_hits");
            return false;
        }
        let rp = Replay {
            property: prop.clone(),
            clause: clause.name.clone(),
            signature: signature.clone(),
            detail: clause.detail.clone(),
            engine: self.args.engine.clone(),
            run_seed,
            case,
        };
        std::fs::create_dir_all(&self.args.replay_dir).ok();
        let path = self.args.replay_dir.join(format!("{}-{}-{:016x}.json", prop, self.args.engine, run_seed));
        std::fs::write(&path, serde_json::to_string_pretty(&rp).unwrap()).expect("write replay");
        println!("VIOLATION property={} replay={}", prop, path.display());
        println!("  clause={} signature={}", clause.name, signature);
        println!("  {}", clause.detail);
        self.res.violations.push(ViolationRef {
            property: prop,
            clause: clause.name.clone(),
            detail: clause.detail.clone(),
            replay: path.display().to_string(),
            signature,
        });
        true
    }

    pub fn finish(self) -> i32 {
        println!("RESULT {}", serde_json::to_string(&self.res).unwrap());
        if self.res.violations.is_empty() {
            0
        } else {
            1
        }
    }
}
