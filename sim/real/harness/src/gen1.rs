//! Seeded generation of L1 cases (swarm style: every run draws its own configuration, key
//! alphabet, operation mix, time-step menu and value-size classes).

use crate::l1::{Case1, Op1};
use crate::vals::{base_fp, N_VTYPES};
use simcore::model::*;
use simcore::rng::Rng;

pub const WEIGHTS: [Option<f64>; 6] = [None, Some(0.1), Some(0.3), Some(1.0), Some(1.5), Some(3.0)];
pub const TTLS: [Option<u64>; 4] = [None, Some(1), Some(2), Some(3)];

/// The complete configuration product enumerated by C16:
/// 3 flavours x 6 policies x limit 1..4 x ttl {-,1,2,3} x max_memory {-,small} x weight (6) = 3456.
pub const N_CONFIGS: u64 = 3 * 6 * 4 * 4 * 2 * 6;

pub fn config_by_index(i: u64) -> (Params, bool) {
    let mut i = i % N_CONFIGS;
    let fl = [Flavour::Sync, Flavour::Thread, Flavour::Async][(i % 3) as usize];
    i /= 3;
    let pol = Policy::ALL[(i % 6) as usize];
    i /= 6;
    let limit = 1 + (i % 4) as usize;
    i /= 4;
    let ttl = TTLS[(i % 4) as usize];
    i /= 4;
    let mem = i % 2 == 1;
    i /= 2;
    let weight = WEIGHTS[(i % 6) as usize];
    (
        Params { flavour: fl, policy: pol, limit: Some(limit), ttl, max_memory: None, weight },
        mem,
    )
}

fn gen_params(prop: &str, r: &mut Rng, run: u64) -> (Params, u8) {
    let flavour = *r.pick(&[Flavour::Sync, Flavour::Thread, Flavour::Async]);
    let mut policy = *r.pick(&Policy::ALL);
    let mut limit = if r.chance(7, 10) { Some(r.range(1, 4) as usize) } else { None };
    let mut ttl = if r.chance(3, 10) { Some(r.range(1, 3)) } else { None };
    let mut want_mem = r.chance(1, 4);
    let mut weight = None;
    let mut fixed: Option<Params> = None;
    match prop {
        "C04" => {
            limit = Some(r.range(1, 4) as usize);
        }
        "C05" => {
            want_mem = true;
            limit = if r.chance(1, 2) { Some(r.range(1, 4) as usize) } else { None };
        }
        "C06" => {
            ttl = Some(r.range(1, 3));
            limit = if r.chance(6, 10) { Some(r.range(1, 4) as usize) } else { None };
        }
        "C07" => {
            policy = *r.pick(&[Policy::Fifo, Policy::Lru]);
            if r.chance(1, 3) {
                limit = None;
                want_mem = true;
            } else {
                limit = Some(r.range(1, 4) as usize);
            }
        }
        "C08" => {
            policy = *r.pick(&[Policy::Lfu, Policy::Arc, Policy::Tlru]);
            if r.chance(1, 3) {
                limit = None;
                want_mem = true;
            } else {
                limit = Some(r.range(1, 4) as usize);
            }
            ttl = if r.chance(1, 2) { Some(r.range(1, 3)) } else { None };
        }
        "C16" => {
            let (p, m) = config_by_index(run);
            want_mem = m;
            fixed = Some(p);
        }
        _ => {}
    }
    if policy == Policy::Tlru {
        weight = *r.pick(&WEIGHTS);
    } else if r.chance(1, 10) {
        // a weight on a non-TLRU policy must be ignored
        weight = *r.pick(&WEIGHTS);
    }
    let mut p = fixed.unwrap_or(Params { flavour, policy, limit, ttl, max_memory: None, weight });
    let vtype = if want_mem { r.below(N_VTYPES as u64) as u8 } else { 1 };
    if want_mem {
        // room for roughly 1..4 small values
        let base = base_fp(vtype);
        let slots = r.range(1, 4) as usize;
        p.max_memory = Some(base * slots + r.below(40) as usize);
    }
    (p, vtype)
}

pub fn gen_case1(prop: &str, seed: u64, run: u64) -> Case1 {
    let mut r = Rng::new(seed);
    let (p, vtype) = gen_params(prop, &mut r, run);
    let cap = p.limit.unwrap_or(r.range(2, 4) as usize);
    let nkeys = (cap + r.range(1, 3) as usize).min(8) as u64;
    let len = if prop == "C16" { r.range(12, 40) } else { r.range(8, 60) };
    // swarm: per-run operation mix
    let w_get = r.range(1, 6) as u32;
    let w_put = r.range(2, 6) as u32;
    let w_adv = if p.ttl.is_some() { r.range(1, 4) as u32 } else { r.below(2) as u32 };
    let w_clear = if r.chance(1, 5) { 1 } else { 0 };
    let whole_seconds = p.flavour == Flavour::Async && p.policy == Policy::Tlru && p.ttl.is_some();
    let t = p.ttl.unwrap_or(2) as i64;
    let mut steps: Vec<i64> = vec![SEC, (t - 1).max(0) * SEC, t * SEC, (t + 1) * SEC, 10 * t * SEC];
    if !whole_seconds {
        steps.extend_from_slice(&[0, 1, SEC / 2, SEC - 1, t * SEC - 1]);
    }
    if p.flavour == Flavour::Async && r.chance(1, 3) {
        steps.push(-SEC);
        if !whole_seconds {
            steps.push(-SEC / 2);
        }
    }
    let base = base_fp(vtype);
    let room = p.max_memory.map(|m| m.saturating_sub(base));
    let mut ops = Vec::with_capacity(len as usize);
    for _ in 0..len {
        match r.weighted(&[w_get, w_put, w_adv, w_clear]) {
            0 => ops.push(Op1::Get(r.below(nkeys) as Key)),
            1 => {
                let size = match room {
                    None => r.below(9) as u32,
                    Some(room) => ({
                        let room = room as u64;
                        match r.below(9) {
                            0 => 0,
                            1 => room / 4,
                            2 => room / 3,
                            3 => room / 2,
                            4 => room.saturating_sub(1),
                            5 => room,
                            6 => room + 1,
                            7 => room * 2 + 3,
                            _ => r.below(room + 2),
                        }
                    }) as u32,
                };
                ops.push(Op1::Put { k: r.below(nkeys) as Key, size, shape: r.below(8) as u8 })
            }
            2 => ops.push(Op1::Adv(*r.pick(&steps))),
            _ => ops.push(Op1::Clear),
        }
    }
    Case1 { params: p, vtype, fastrand_seed: r.next_u64(), ops }
}
