//! Seeded generation of L2 cases: a universe of corpus functions, actors, and a history of
//! calls (with scripted body outcomes and predicate verdicts), clock steps and invalidations.

use crate::corpus::{FnSpec, SPECS};
use crate::l2::*;
use simcore::model::*;
use simcore::rng::Rng;

pub const NAMES: [&str; 10] = ["x", "y", "t0", "t1", "e0", "e1", "d0", "d1", "zz", ""];

/// Thread-scope stores are not observable; only configurations whose victim is unique are
/// compared with the model (the others are still executed for C16 and C19).
pub fn modelled(s: &FnSpec) -> bool {
    s.flavour != Flavour::Thread || matches!(s.policy, Policy::Fifo | Policy::Lru) || (s.limit.is_none() && s.max_memory.is_none())
}

fn pool(prop: &str) -> Vec<&'static FnSpec> {
    let evict = |s: &FnSpec| s.limit.is_some() || s.max_memory.is_some();
    SPECS
        .iter()
        .filter(|s| match prop {
            "C03" => s.limit.is_none() && s.ttl.is_none() && s.max_memory.is_none() && !s.has_inv_on && !s.has_cache_if && !s.is_result,
            "C04" => s.limit.is_some() && registered(s),
            "C05" => s.max_memory.is_some() && registered(s),
            "C06" => s.ttl.is_some() && registered(s),
            "C07" => matches!(s.policy, Policy::Fifo | Policy::Lru) && evict(s) && registered(s),
            "C08" => matches!(s.policy, Policy::Lfu | Policy::Arc | Policy::Tlru) && evict(s) && registered(s),
            "C09" => s.is_result && !s.has_cache_if,
            "C10" => s.has_cache_if,
            "C11" => s.has_inv_on,
            "C12" | "C13" | "C15" => registered(s),
            _ => true,
        })
        .filter(|s| s.family != "nested")
        .filter(|s| prop == "C16" || modelled(s))
        .collect()
}

pub fn gen_case2(prop: &str, seed: u64, run: u64) -> Case2 {
    let mut r = Rng::new(seed);
    let pl = pool(prop);
    let mut fns: Vec<u16> = Vec::new();
    let nf = match prop {
        "C12" => r.range(3, 6),
        "C13" | "C15" => r.range(2, 4),
        "C14" => r.range(2, 4),
        _ => r.range(1, 3),
    };
    if prop == "C16" {
        let all: Vec<&FnSpec> = SPECS.iter().filter(|s| s.family != "nested").collect();
        fns.push(all[(run % all.len() as u64) as usize].id);
    }
    if prop == "C12" || (prop == "C13" && r.chance(1, 3)) {
        // mostly the invalidation-group family
        let grp: Vec<&&FnSpec> = pl.iter().filter(|s| s.family == "group").collect();
        for _ in 0..nf {
            let s = if r.chance(4, 5) { **r.pick(&grp) } else { *r.pick(&pl) };
            if !fns.contains(&s.id) {
                fns.push(s.id);
            }
        }
    } else if prop == "C14" {
        let th: Vec<&&FnSpec> = pl.iter().filter(|s| s.flavour == Flavour::Thread).collect();
        let gl: Vec<&&FnSpec> = pl.iter().filter(|s| s.flavour != Flavour::Thread).collect();
        fns.push(r.pick(&th).id);
        if r.chance(1, 2) {
            let s = r.pick(&th).id;
            if !fns.contains(&s) {
                fns.push(s);
            }
        }
        let s = r.pick(&gl).id;
        fns.push(s);
    }
    while (fns.len() as u64) < nf {
        let s = r.pick(&pl);
        if !fns.contains(&s.id) {
            fns.push(s.id);
        }
    }
    let any_thread = fns.iter().any(|f| spec(*f).flavour == Flavour::Thread);
    let actors: u8 = if prop == "C14" {
        r.range(2, 4) as u8
    } else if any_thread {
        if r.chance(1, 4) { 2 } else { 1 }
    } else {
        0
    };
    // swarm: operation mix of this run
    let w_call = r.range(6, 12) as u32;
    let w_adv = if fns.iter().any(|f| spec(*f).ttl.is_some()) { r.range(1, 4) as u32 } else { r.below(2) as u32 };
    let inv_props = matches!(prop, "C01" | "C12" | "C13" | "C15" | "C16" | "C04" | "C17" | "C18");
    let w_group = if prop == "C12" { r.range(2, 5) as u32 } else if prop == "C13" { r.range(1, 3) as u32 } else if inv_props { r.below(3) as u32 } else { 0 };
    let w_with = if prop == "C13" { r.range(2, 5) as u32 } else if inv_props { r.below(3) as u32 } else { 0 };
    let w_reset = if prop == "C15" { r.range(1, 2) as u32 } else if inv_props { r.below(2) as u32 } else { 0 };
    let w_respawn = if prop == "C14" { 1 } else { 0 };
    let len = r.range(8, 48);
    let mut steps: Vec<i64> = vec![SEC, 2 * SEC, 3 * SEC, 4 * SEC];
    let whole = fns.iter().any(|f| {
        let s = spec(*f);
        s.flavour == Flavour::Async && s.policy == Policy::Tlru && s.ttl.is_some()
    });
    if !whole {
        steps.extend_from_slice(&[0, 1, SEC / 2, SEC - 1, 2 * SEC - 1]);
    }
    if fns.iter().all(|f| spec(*f).flavour == Flavour::Async) && r.chance(1, 3) {
        steps.push(-SEC);
    }
    // per-run key alphabet of each function: a random subset a little larger than its capacity
    let mut alphabet: std::collections::BTreeMap<u16, Vec<Key>> = Default::default();
    for f in &fns {
        let s = spec(*f);
        let cap = s.limit.unwrap_or(3);
        let nk = (s.nkeys as usize).min(cap + 3);
        let mut all: Vec<Key> = (0..s.nkeys).collect();
        r.shuffle(&mut all);
        all.truncate(nk);
        alphabet.insert(*f, all);
    }
    let mut ops = Vec::new();
    for _ in 0..len {
        match r.weighted(&[w_call, w_adv, w_group, w_with, w_reset, w_respawn]) {
            0 => {
                let f = *r.pick(&fns);
                let s = spec(f);
                let size = match s.max_memory {
                    None => r.below(9) as u32,
                    Some(m) => {
                        let m = m as u64;
                        *r.pick(&[0, m / 8, m / 4, m / 3, m / 2, m.saturating_sub(100), m.saturating_sub(64), m.saturating_sub(48), m.saturating_sub(40), m.saturating_sub(33), m.saturating_sub(32), m.saturating_sub(24), m, 2 * m]) as u32
                    }
                };
                let dur = if whole {
                    *r.pick(&[0, 0, 0, SEC])
                } else {
                    *r.pick(&[0, 0, 0, 0, 1, SEC / 2, SEC, 2 * SEC])
                };
                ops.push(Op2::Call {
                    a: if actors > 0 { r.below(actors as u64) as u8 } else { 0 },
                    f,
                    k: *r.pick(&alphabet[&f]),
                    err: s.is_result && r.chance(2, 5),
                    size,
                    shape: r.below(8) as u8,
                    dur_ns: dur,
                    gates: r.range(1, 3) as u8,
                    inv: r.chance(3, 10),
                    cif: r.chance(6, 10),
                });
            }
            1 => ops.push(Op2::Adv(*r.pick(&steps))),
            2 => {
                let name = if r.chance(1, 4) {
                    let f = spec(*r.pick(&fns));
                    if r.chance(1, 5) { f.fn_name.to_string() } else { f.reg_name.to_string() }
                } else {
                    NAMES[r.below(NAMES.len() as u64) as usize].to_string()
                };
                ops.push(match r.below(4) {
                    0 => Op2::InvTag(name),
                    1 => Op2::InvEvent(name),
                    2 => Op2::InvDep(name),
                    _ => Op2::InvName(name),
                });
            }
            3 => {
                if r.chance(2, 3) {
                    let name = if r.chance(1, 8) { "nope".to_string() } else { spec(*r.pick(&fns)).reg_name.to_string() };
                    ops.push(Op2::InvWith { name, mask: r.below(256) as u8 });
                } else {
                    let mut masks = Vec::new();
                    for f in &fns {
                        if r.chance(2, 3) {
                            masks.push((*f, r.below(256) as u8));
                        }
                    }
                    ops.push(Op2::InvAllWith(masks));
                }
            }
            4 => {
                let name = if r.chance(1, 8) { "nope".to_string() } else { spec(*r.pick(&fns)).reg_name.to_string() };
                ops.push(Op2::StatsReset(name));
            }
            _ => {
                if actors > 0 {
                    ops.push(Op2::Respawn(r.below(actors as u64) as u8));
                }
            }
        }
    }
    Case2 { fns, actors, fastrand_seed: r.next_u64(), ops }
}
