//! Engine SEQ at level L1: the three core caches constructed directly on harness-owned storage,
//! driven by explicit operation lists and compared with the reference model after every
//! operation. Store *and* queue are fully observable here.

use crate::vals::*;
use cachelito_core::verif_seams as seams;
use cachelito_core::{AsyncGlobalCache, CacheEntry, CacheStats, EvictionPolicy, GlobalCache, ThreadLocalCache};
use dashmap::DashMap;
use once_cell::sync::Lazy;
use parking_lot::{Mutex, RwLock};
use serde::{Deserialize, Serialize};
use simcore::check::*;
use simcore::model::*;
use simcore::report::Counters;
use std::cell::RefCell;
use std::collections::{BTreeMap, BTreeSet, HashMap, VecDeque};
use std::panic::{catch_unwind, AssertUnwindSafe};

#[derive(Clone, Debug, PartialEq, Serialize, Deserialize)]
pub enum Op1 {
    Get(Key),
    Put { k: Key, size: u32, shape: u8 },
    Adv(i64),
    Clear,
}

#[derive(Clone, Debug, PartialEq, Serialize, Deserialize)]
pub struct Case1 {
    pub params: Params,
    pub vtype: u8,
    pub fastrand_seed: u64,
    pub ops: Vec<Op1>,
}

pub fn key_str(k: Key) -> String {
    // a small adversarial alphabet: separators, quotes, escapes, unicode, empty
    const NAMES: [&str; 8] = ["", "a|b", "\"q\"", "k\\3", "ключ", "'5'", "a|b|", "7"];
    NAMES[k as usize % 8].to_string()
}

fn key_of(s: &str) -> Option<Key> {
    (0u8..8).find(|k| key_str(*k) == s)
}

pub fn policy_of(p: Policy) -> EvictionPolicy {
    match p {
        Policy::Fifo => EvictionPolicy::FIFO,
        Policy::Lru => EvictionPolicy::LRU,
        Policy::Lfu => EvictionPolicy::LFU,
        Policy::Arc => EvictionPolicy::ARC,
        Policy::Random => EvictionPolicy::Random,
        Policy::Tlru => EvictionPolicy::TLRU,
    }
}

/// Snapshot of the real cache: key -> (stamp, harness footprint of the stored value), queue.
pub struct Snap {
    pub entries: BTreeMap<String, (u64, usize)>,
    pub queue: Vec<String>,
    pub stats: (u64, u64),
    /// white-box: per key (birth: ns of simulated time for sync flavours / unix seconds for async, frequency)
    pub hidden: BTreeMap<String, (i64, u64)>,
}

pub trait Drv<V: HVal> {
    fn reset(&self);
    fn get(&self, p: &Params, k: &str) -> Option<V>;
    fn put(&self, p: &Params, k: &str, v: V);
    fn clear(&self, p: &Params);
    fn snap(&self) -> Snap;
    /// what a conditional invalidation does: remove the matching keys from store and queue
    fn remove_where(&self, pred: &dyn Fn(&str) -> bool);
}

macro_rules! l1_type {
    ($m:ident, $t:ty) => {
        pub mod $m {
            use super::*;
            pub type V = $t;
            static G_MAP: Lazy<RwLock<HashMap<String, CacheEntry<V>>>> = Lazy::new(|| RwLock::new(HashMap::new()));
            static G_ORDER: Lazy<Mutex<VecDeque<String>>> = Lazy::new(|| Mutex::new(VecDeque::new()));
            static G_STATS: Lazy<CacheStats> = Lazy::new(CacheStats::new);
            thread_local! {
                static T_MAP: RefCell<HashMap<String, CacheEntry<V>>> = RefCell::new(HashMap::new());
                static T_ORDER: RefCell<VecDeque<String>> = RefCell::new(VecDeque::new());
                static T_STATS: RefCell<(u64, u64)> = RefCell::new((0, 0));
            }
            static A_MAP: Lazy<DashMap<String, (V, u64, u64)>> = Lazy::new(DashMap::new);
            static A_ORDER: Lazy<Mutex<VecDeque<String>>> = Lazy::new(|| Mutex::new(VecDeque::new()));
            static A_STATS: Lazy<CacheStats> = Lazy::new(CacheStats::new);

            pub struct G;
            impl G {
                fn c(p: &Params) -> GlobalCache<V> {
                    GlobalCache::new(&G_MAP, &G_ORDER, p.limit, p.max_memory, policy_of(p.policy), p.ttl, p.weight, &G_STATS)
                }
            }
            impl Drv<V> for G {
                fn reset(&self) {
                    G_MAP.write().clear();
                    G_ORDER.lock().clear();
                    G_STATS.reset();
                }
                fn get(&self, p: &Params, k: &str) -> Option<V> {
                    Self::c(p).get(k)
                }
                fn put(&self, p: &Params, k: &str, v: V) {
                    if p.max_memory.is_some() {
                        Self::c(p).insert_with_memory(k, v)
                    } else {
                        Self::c(p).insert(k, v)
                    }
                }
                fn clear(&self, p: &Params) {
                    Self::c(p).clear()
                }
                fn remove_where(&self, pred: &dyn Fn(&str) -> bool) {
                    let mut o = G_ORDER.lock();
                    let mut m = G_MAP.write();
                    let ks: Vec<String> = m.keys().filter(|k| pred(k)).cloned().collect();
                    for k in ks {
                        m.remove(&k);
                        o.retain(|x| *x != k);
                    }
                }
                fn snap(&self) -> Snap {
                    Snap {
                        entries: G_MAP.read().iter().map(|(k, e)| (k.clone(), (e.value.stamp(), e.value.fp()))).collect(),
                        queue: G_ORDER.lock().iter().cloned().collect(),
                        stats: (G_STATS.hits(), G_STATS.misses()),
                        hidden: G_MAP.read().iter().map(|(k, e)| (k.clone(), (seams::peek_now_ns() - e.inserted_at.elapsed().as_nanos() as i64, e.frequency))).collect(),
                    }
                }
            }

            pub struct T;
            impl T {
                fn c(p: &Params) -> ThreadLocalCache<V> {
                    ThreadLocalCache::new(&T_MAP, &T_ORDER, p.limit, p.max_memory, policy_of(p.policy), p.ttl, p.weight)
                }
            }
            impl Drv<V> for T {
                fn reset(&self) {
                    T_MAP.with(|m| m.borrow_mut().clear());
                    T_ORDER.with(|m| m.borrow_mut().clear());
                    T_STATS.with(|s| *s.borrow_mut() = (0, 0));
                }
                fn get(&self, p: &Params, k: &str) -> Option<V> {
                    let c = Self::c(p);
                    let r = c.get(k);
                    // the thread-local cache object carries its own counters: accumulate them
                    T_STATS.with(|s| {
                        let mut s = s.borrow_mut();
                        s.0 += c.stats.hits();
                        s.1 += c.stats.misses();
                    });
                    r
                }
                fn put(&self, p: &Params, k: &str, v: V) {
                    if p.max_memory.is_some() {
                        Self::c(p).insert_with_memory(k, v)
                    } else {
                        Self::c(p).insert(k, v)
                    }
                }
                fn clear(&self, _p: &Params) {
                    T_MAP.with(|m| m.borrow_mut().clear());
                    T_ORDER.with(|m| m.borrow_mut().clear());
                }
                fn remove_where(&self, pred: &dyn Fn(&str) -> bool) {
                    T_MAP.with(|m| {
                        T_ORDER.with(|o| {
                            let mut m = m.borrow_mut();
                            let mut o = o.borrow_mut();
                            let ks: Vec<String> = m.keys().filter(|k| pred(k)).cloned().collect();
                            for k in ks {
                                m.remove(&k);
                                o.retain(|x| *x != k);
                            }
                        })
                    })
                }
                fn snap(&self) -> Snap {
                    Snap {
                        entries: T_MAP.with(|m| m.borrow().iter().map(|(k, e)| (k.clone(), (e.value.stamp(), e.value.fp()))).collect()),
                        queue: T_ORDER.with(|o| o.borrow().iter().cloned().collect()),
                        stats: T_STATS.with(|s| *s.borrow()),
                        hidden: T_MAP.with(|m| m.borrow().iter().map(|(k, e)| (k.clone(), (seams::peek_now_ns() - e.inserted_at.elapsed().as_nanos() as i64, e.frequency))).collect()),
                    }
                }
            }

            pub struct A;
            impl A {
                fn c(p: &Params) -> AsyncGlobalCache<'static, V> {
                    AsyncGlobalCache::new(&A_MAP, &A_ORDER, p.limit, p.max_memory, policy_of(p.policy), p.ttl, p.weight, &A_STATS)
                }
            }
            impl Drv<V> for A {
                fn reset(&self) {
                    A_MAP.clear();
                    A_ORDER.lock().clear();
                    A_STATS.reset();
                }
                fn get(&self, p: &Params, k: &str) -> Option<V> {
                    Self::c(p).get(k)
                }
                fn put(&self, p: &Params, k: &str, v: V) {
                    if p.max_memory.is_some() {
                        Self::c(p).insert_with_memory(k, v)
                    } else {
                        Self::c(p).insert(k, v)
                    }
                }
                fn clear(&self, _p: &Params) {
                    let mut o = A_ORDER.lock();
                    A_MAP.clear();
                    o.clear();
                }
                fn remove_where(&self, pred: &dyn Fn(&str) -> bool) {
                    let mut o = A_ORDER.lock();
                    let ks: Vec<String> = A_MAP.iter().filter(|e| pred(e.key())).map(|e| e.key().clone()).collect();
                    for k in ks {
                        A_MAP.remove(&k);
                        o.retain(|x| *x != k);
                    }
                }
                fn snap(&self) -> Snap {
                    Snap {
                        entries: A_MAP.iter().map(|e| (e.key().clone(), (e.value().0.stamp(), e.value().0.fp()))).collect(),
                        queue: A_ORDER.lock().iter().cloned().collect(),
                        stats: (A_STATS.hits(), A_STATS.misses()),
                        hidden: A_MAP.iter().map(|e| (e.key().clone(), (e.value().1 as i64, e.value().2))).collect(),
                    }
                }
            }

            pub fn exec(case: &Case1, log: Option<&mut Vec<String>>) -> Exec1 {
                match case.params.flavour {
                    Flavour::Sync => exec_generic::<V>(&G, case, log),
                    Flavour::Thread => exec_generic::<V>(&T, case, log),
                    Flavour::Async => exec_generic::<V>(&A, case, log),
                }
            }
        }
    };
}

l1_type!(v0, UserVal);
l1_type!(v1, (u64, String));
l1_type!(v2, (u64, Vec<u8>));
l1_type!(v3, (u64, Vec<String>));
l1_type!(v4, (u64, Option<String>));
l1_type!(v5, (u64, Box<String>));
l1_type!(v6, (u64, Result<String, String>));
l1_type!(v7, (u64, (String, Vec<u8>)));
l1_type!(v8, (u64, u8, String));
l1_type!(v9, Result<(u64, String), (u64, String)>);
l1_type!(v10, Result<(u64, Vec<u8>), (u64, String)>);
l1_type!(v11, Result<UserVal, UserVal>);

pub fn vtype_name(v: u8) -> &'static str {
    match v {
        0 => <UserVal as HVal>::NAME,
        1 => <(u64, String) as HVal>::NAME,
        2 => <(u64, Vec<u8>) as HVal>::NAME,
        3 => <(u64, Vec<String>) as HVal>::NAME,
        4 => <(u64, Option<String>) as HVal>::NAME,
        5 => <(u64, Box<String>) as HVal>::NAME,
        6 => <(u64, Result<String, String>) as HVal>::NAME,
        7 => <(u64, (String, Vec<u8>)) as HVal>::NAME,
        _ => <(u64, u8, String) as HVal>::NAME,
    }
}

pub fn exec(case: &Case1, log: Option<&mut Vec<String>>) -> Exec1 {
    match case.vtype {
        0 => v0::exec(case, log),
        1 => v1::exec(case, log),
        2 => v2::exec(case, log),
        3 => v3::exec(case, log),
        4 => v4::exec(case, log),
        5 => v5::exec(case, log),
        6 => v6::exec(case, log),
        7 => v7::exec(case, log),
        8 => v8::exec(case, log),
        9 => v9::exec(case, log),
        10 => v10::exec(case, log),
        _ => v11::exec(case, log),
    }
}

/// Result of executing one case.
#[derive(Default)]
pub struct Exec1 {
    /// first deviation from the model: (index of the operation, clause)
    pub deviation: Option<(usize, Clause)>,
    /// first divergence of the bookkeeping the properties name (birth time, hit counter, queue
    /// order) from the model, used ONLY to attribute a later behavioural deviation to its cause
    pub hidden_divergence: Option<(usize, &'static str)>,
    pub ops_done: usize,
    pub sim_ns: i64,
    pub counters: Counters,
    /// (op kind, outcome class) strings seen
    pub classes: BTreeSet<String>,
    pub states: BTreeSet<u64>,
    pub digest: u64,
}

fn panic_msg(e: Box<dyn std::any::Any + Send>) -> String {
    if let Some(s) = e.downcast_ref::<&str>() {
        s.to_string()
    } else if let Some(s) = e.downcast_ref::<String>() {
        s.clone()
    } else {
        "panic".to_string()
    }
}

fn store_obs(s: &Snap) -> Result<StoreObs, Clause> {
    let mut o = StoreObs::new();
    for (k, (stamp, _)) in &s.entries {
        match key_of(k) {
            Some(kk) => {
                o.insert(kk, Some(*stamp));
            }
            None => {
                return Err(Clause::new("phantom_key", &["C01"], format!("store holds key {k:?} that was never stored")));
            }
        }
    }
    Ok(o)
}

fn state_hash(m: &Model) -> u64 {
    let mut s = String::new();
    for (k, e) in &m.e {
        s.push_str(&format!("{k}:{}:{}:{};", e.hits, e.stored_seq, e.used_seq));
    }
    simcore::report::hash_str(&s)
}

fn exec_generic<V: HVal>(drv: &dyn Drv<V>, case: &Case1, mut log: Option<&mut Vec<String>>) -> Exec1 {
    let p = &case.params;
    let mut out = Exec1::default();
    drv.reset();
    seams::set_now_ns(0);
    fastrand::seed(case.fastrand_seed);
    let mut model = Model::new(p.clone());
    let mut stamp: u64 = 0;
    let mut now: i64 = 0;
    let mut digest: u64 = 0xcbf29ce484222325;
    let mut mixd = |x: u64| {
        digest ^= x;
        digest = digest.wrapping_mul(0x100000001b3);
    };
    for (i, op) in case.ops.iter().enumerate() {
        let before_keys = model.keys();
        let res: Result<Result<Model, Clause>, String> = match op {
            Op1::Adv(dt) => {
                now += *dt;
                seams::set_now_ns(now);
                out.sim_ns += dt.abs();
                out.counters.inc(if *dt < 0 { "fault.clock_backward" } else if *dt % SEC != 0 { "fault.clock_subsecond" } else { "fault.clock_forward" });
                Ok(Ok(model.clone()))
            }
            Op1::Get(k) => {
                let ks = key_str(*k);
                match catch_unwind(AssertUnwindSafe(|| {
                    let r = drv.get(p, &ks);
                    (r, drv.snap())
                })) {
                    Err(e) => Err(panic_msg(e)),
                    Ok((r, snap)) => {
                        let ret = r.as_ref().map(|v| v.stamp());
                        let class = match (&ret, model.e.get(k)) {
                            (Some(_), _) => "get:hit",
                            (None, None) => "get:miss",
                            (None, Some(e)) => {
                                if model.expired(e, now) == Exp::Either {
                                    out.counters.inc("probe.async_window_lookup");
                                }
                                out.counters.inc("probe.expired_lookup");
                                if p.limit.map_or(false, |n| model.e.len() >= n) {
                                    out.counters.inc("probe.expired_purged_while_full");
                                }
                                if (now - e.birth_ns) == p.ttl.unwrap_or(0) as i64 * SEC {
                                    out.counters.inc("probe.expiry_exactly_at_ttl");
                                }
                                "get:expired"
                            }
                        };
                        out.classes.insert(class.to_string());
                        mixd(ret.unwrap_or(u64::MAX));
                        Ok(store_obs(&snap).and_then(|o| {
                            let m2 = check_get(&model, *k, now, ret, Some(&o))?;
                            check_side(&m2, p, &snap)?;
                            Ok(m2)
                        }))
                    }
                }
            }
            Op1::Put { k, size, shape } => {
                stamp += 1;
                let v = V::make(stamp, *size as usize, *shape);
                let fp = v.fp();
                let ks = key_str(*k);
                match catch_unwind(AssertUnwindSafe(|| {
                    drv.put(p, &ks, v);
                    drv.snap()
                })) {
                    Err(e) => Err(panic_msg(e)),
                    Ok(snap) => {
                        let existed = model.e.contains_key(k);
                        let oversize = p.max_memory.map_or(false, |m| fp > m);
                        let r = store_obs(&snap).and_then(|o| {
                            let m2 = check_put(&model, *k, stamp, fp, now, &o)?;
                            check_side(&m2, p, &snap)?;
                            Ok(m2)
                        });
                        if let Ok(m2) = &r {
                            let removed = before_keys.iter().filter(|x| **x != *k && !m2.e.contains_key(x)).count();
                            let self_evicted = !oversize && !m2.e.contains_key(k);
                            let cls = format!(
                                "put:{}:{}:rm{}{}",
                                if existed { "restore" } else { "new" },
                                if oversize { "oversize" } else { "fits" },
                                removed,
                                if self_evicted { ":self" } else { "" }
                            );
                            out.classes.insert(cls);
                            if removed > 0 {
                                out.counters.inc("probe.eviction");
                                let succ = model.store(*k, stamp, fp, now);
                                if succ.len() > 1 {
                                    out.counters.inc("probe.eviction_with_tie");
                                }
                            }
                            if removed >= 2 {
                                out.counters.inc("probe.multi_eviction_one_store");
                            }
                            if self_evicted {
                                out.counters.inc("probe.newcomer_evicted");
                            }
                            if existed {
                                out.counters.inc("probe.restore_existing_key");
                            }
                            if oversize {
                                out.counters.inc("probe.oversize_skipped");
                            }
                            for x in m2.keys() {
                                mixd(x as u64 + 1);
                            }
                        }
                        Ok(r)
                    }
                }
            }
            Op1::Clear => match catch_unwind(AssertUnwindSafe(|| {
                drv.clear(p);
                drv.snap()
            })) {
                Err(e) => Err(panic_msg(e)),
                Ok(snap) => {
                    out.counters.inc("fault.clear");
                    let mut m2 = model.clone();
                    m2.clear();
                    if snap.entries.is_empty() {
                        Ok(Ok(m2))
                    } else {
                        Ok(Err(Clause::new("clear_left_entries", &["C12", "C13"], format!("clear left {:?}", snap.entries.keys()))))
                    }
                }
            },
        };
        if let Some(l) = log.as_deref_mut() {
            l.push(format!("{i}: {op:?} now={now} -> model keys {:?}", match &res { Ok(Ok(m)) => format!("{:?}", m.keys()), Ok(Err(c)) => format!("DEVIATION {}", c.name), Err(e) => format!("PANIC {e}") }));
        }
        match res {
            Err(msg) => {
                out.deviation = Some((
                    i,
                    Clause::new("panic", &["C16"], format!("operation {i} {op:?} panicked: {msg} [{}; value {}]", p.short(), V::NAME)),
                ));
                // leave the (possibly half-updated) cache behind: the next run resets it
                break;
            }
            Ok(Err(mut c)) => {
                if let Some((j, field)) = out.hidden_divergence {
                    // only symptoms that the diverged bookkeeping can explain are re-attributed
                    let downstream: &[&str] = match field {
                        "birth" => &["served_expired", "lost_entry", "lookup_changed_store", "expired_not_purged", "wrong_victim", "needless_eviction", "victim_count"],
                        _ => &["wrong_victim"],
                    };
                    if downstream.contains(&c.name.as_str()) {
                        // the behaviour is wrong now because bookkeeping went wrong earlier: blame the cause
                        let owner = match field {
                            "birth" => "C06",
                            "frequency" => "C08",
                            _ => match p.policy {
                                Policy::Fifo | Policy::Lru => "C07",
                                _ => "C08",
                            },
                        };
                        c.owners = vec![owner.to_string()];
                        c.detail = format!("{} (root cause: the {field} bookkeeping diverged from the specification at operation {j} {:?})", c.detail, case.ops[j]);
                    }
                }
                out.deviation = Some((i, c));
                break;
            }
            Ok(Ok(m2)) => {
                model = m2;
                out.states.insert(state_hash(&model));
                out.ops_done += 1;
                if out.hidden_divergence.is_none() && !matches!(op, Op1::Adv(_)) {
                    if let Some(f) = hidden_field_divergence(&model, p, &drv.snap(), now) {
                        out.hidden_divergence = Some((i, f));
                        out.counters.inc(&format!("whitebox.divergence.{}", f.replace(' ', "_")));
                    }
                }
            }
        }
    }
    out.digest = digest;
    out
}

/// White-box comparison of the bookkeeping named by the properties (never a verdict by itself).
fn hidden_field_divergence(m: &Model, p: &Params, snap: &Snap, _now: i64) -> Option<&'static str> {
    for (k, e) in &m.e {
        let ks = key_str(*k);
        if let Some((birth, freq)) = snap.hidden.get(&ks) {
            let exp_birth = if p.flavour == Flavour::Async {
                seams::EPOCH_BASE_SECS + e.birth_ns.div_euclid(SEC)
            } else {
                e.birth_ns
            };
            if *birth != exp_birth {
                return Some("birth");
            }
            if *freq != e.hits {
                return Some("frequency");
            }
        }
    }
    // queue order, only when the queue is exactly a permutation of the stored keys
    let stored: BTreeSet<&String> = snap.entries.keys().collect();
    let q: BTreeSet<&String> = snap.queue.iter().collect();
    let bounded = p.limit.is_some() || p.max_memory.is_some();
    if snap.queue.len() == stored.len() && q == stored && (p.flavour != Flavour::Async || bounded) {
        let mut exp: Vec<(u64, String)> = m
            .e
            .iter()
            .map(|(k, e)| (if p.policy.tracks_recency() { e.used_seq } else { e.stored_seq }, key_str(*k)))
            .collect();
        exp.sort();
        let exp: Vec<String> = exp.into_iter().map(|x| x.1).collect();
        if exp != snap.queue {
            return Some("queue order");
        }
    }
    None
}

/// Observations that need the real values: independent footprint total, statistics.
fn check_side(m: &Model, p: &Params, snap: &Snap) -> Result<(), Clause> {
    if let Some(mm) = p.max_memory {
        let total: usize = snap.entries.values().map(|x| x.1).sum();
        if total > mm {
            return Err(Clause::new(
                "memory_exceeded",
                &["C05"],
                format!("stored values occupy {total} bytes (harness footprint), max_memory {mm} [{}]", p.short()),
            ));
        }
    }
    if snap.stats != (m.stat_hits, m.stat_misses) {
        return Err(Clause::new(
            "stats_mismatch",
            &["C15"],
            format!("statistics: observed {:?}, expected ({}, {}) [{}]", snap.stats, m.stat_hits, m.stat_misses, p.short()),
        ));
    }
    Ok(())
}

// ---------------------------------------------------------------------------------------
// type-erased access for the differential engine (C19)

pub trait Dyn1 {
    fn reset(&self);
    fn get(&self, p: &Params, k: &str) -> Option<u64>;
    /// stores `make(stamp, size, shape).clone()` — the macro stores a clone of the result
    fn put(&self, p: &Params, k: &str, stamp: u64, size: usize, shape: u8);
    fn remove_where(&self, p: &Params, pred: &dyn Fn(&str) -> bool);
    fn keys(&self) -> BTreeSet<String>;
}

struct Erased<V: HVal, D: Drv<V>>(D, std::marker::PhantomData<V>);

impl<V: HVal, D: Drv<V>> Dyn1 for Erased<V, D> {
    fn reset(&self) {
        self.0.reset()
    }
    fn get(&self, p: &Params, k: &str) -> Option<u64> {
        self.0.get(p, k).map(|v| v.stamp())
    }
    fn put(&self, p: &Params, k: &str, stamp: u64, size: usize, shape: u8) {
        let v = V::make(stamp, size, shape);
        self.0.put(p, k, v.clone())
    }
    fn remove_where(&self, _p: &Params, pred: &dyn Fn(&str) -> bool) {
        self.0.remove_where(pred)
    }
    fn keys(&self) -> BTreeSet<String> {
        self.0.snap().entries.keys().cloned().collect()
    }
}

macro_rules! dyn_arm {
    ($m:ident, $fl:expr) => {
        match $fl {
            Flavour::Sync => Box::new(Erased::<$m::V, _>($m::G, std::marker::PhantomData)) as Box<dyn Dyn1>,
            Flavour::Thread => Box::new(Erased::<$m::V, _>($m::T, std::marker::PhantomData)) as Box<dyn Dyn1>,
            Flavour::Async => Box::new(Erased::<$m::V, _>($m::A, std::marker::PhantomData)) as Box<dyn Dyn1>,
        }
    };
}

pub fn dyn_drv(vtype: u8, fl: Flavour) -> Box<dyn Dyn1> {
    match vtype {
        0 => dyn_arm!(v0, fl),
        1 => dyn_arm!(v1, fl),
        2 => dyn_arm!(v2, fl),
        3 => dyn_arm!(v3, fl),
        4 => dyn_arm!(v4, fl),
        5 => dyn_arm!(v5, fl),
        6 => dyn_arm!(v6, fl),
        7 => dyn_arm!(v7, fl),
        8 => dyn_arm!(v8, fl),
        9 => dyn_arm!(v9, fl),
        10 => dyn_arm!(v10, fl),
        _ => dyn_arm!(v11, fl),
    }
}
