//! Engines SEQ and ACT at level L2: macro-generated functions of the corpus, observed black-box
//! (return value, execution log, predicate log, statistics registry, key listing through a
//! never-matching `invalidate_with` predicate), compared with the reference model.

use crate::corpus::{FnSpec, RetObs, SPECS};
use crate::world::{self, Script};
use cachelito_core::verif_seams as seams;
use serde::{Deserialize, Serialize};
use simcore::check::*;
use simcore::model::*;
use simcore::report::Counters;
use simcore::rng::mix;
use std::collections::{BTreeMap, BTreeSet, HashMap};
use std::panic::{catch_unwind, AssertUnwindSafe};
use std::sync::mpsc;
use std::sync::Once;

#[derive(Clone, Debug, PartialEq, Serialize, Deserialize)]
pub enum Op2 {
    Call { a: u8, f: u16, k: Key, err: bool, size: u32, shape: u8, dur_ns: i64, gates: u8, inv: bool, cif: bool },
    Adv(i64),
    InvTag(String),
    InvEvent(String),
    InvDep(String),
    InvName(String),
    InvWith { name: String, mask: u8 },
    /// per function id: bit mask of key indices to remove; every other cache: nothing
    InvAllWith(Vec<(u16, u8)>),
    StatsReset(String),
    /// actor thread exits (its thread-local caches die) and a fresh thread takes its place
    Respawn(u8),
}

#[derive(Clone, Debug, PartialEq, Serialize, Deserialize)]
pub struct Case2 {
    pub fns: Vec<u16>,
    /// 0 = everything on the worker's main thread (no thread-scope function in the universe)
    pub actors: u8,
    pub fastrand_seed: u64,
    pub ops: Vec<Op2>,
}

pub fn spec(id: u16) -> &'static FnSpec {
    &SPECS[id as usize]
}

pub fn params_of(s: &FnSpec) -> Params {
    Params { flavour: s.flavour, policy: s.policy, limit: s.limit, ttl: s.ttl, max_memory: s.max_memory, weight: s.weight }
}

pub fn cfg_of(s: &FnSpec) -> FnCfg {
    FnCfg { params: params_of(s), is_result: s.is_result, has_inv_on: s.has_inv_on, has_cache_if: s.has_cache_if }
}

pub fn has_meta(s: &FnSpec) -> bool {
    !(s.tags.is_empty() && s.events.is_empty() && s.deps.is_empty())
}

pub fn registered(s: &FnSpec) -> bool {
    s.flavour != Flavour::Thread
}

static INIT: Once = Once::new();

/// Process start: argument tables, and every global/async function is used once in a fixed
/// order, so that what is registered never depends on which runs came before.
pub fn init_process() {
    INIT.call_once(|| {
        world::with(|w| {
            for s in SPECS.iter() {
                for k in 0..s.nkeys {
                    w.reprs.insert((s.id, (s.repr)(k)), k);
                }
            }
        });
        seams::set_now_ns(0);
        for s in SPECS.iter() {
            if registered(s) {
                world::set_plan(s.id, 0, Script { err: true, cif_verdict: false, ..Default::default() });
                let _ = (s.call)(0);
            }
        }
        world::reset_run(0);
    });
}

/// Lists the key strings of a global/async cache without changing it.
pub fn list_keys(reg_name: &str) -> Option<BTreeSet<String>> {
    let seen = std::cell::RefCell::new(BTreeSet::new());
    let found = cachelito_core::invalidate_with(reg_name, |k: &str| {
        seen.borrow_mut().insert(k.to_string());
        false
    });
    if found {
        Some(seen.into_inner())
    } else {
        None
    }
}

fn stats_of(reg_name: &str) -> Option<(u64, u64)> {
    cachelito_core::stats_registry::get(reg_name).map(|s| (s.hits(), s.misses()))
}

struct FnState {
    spec: &'static FnSpec,
    cfg: FnCfg,
    /// one model for global/async; one per actor for thread scope
    models: BTreeMap<u8, Model>,
    keymap: HashMap<String, Key>,
    listed: BTreeSet<String>,
    inv_tainted: bool,
    /// stamp -> actor that executed it
    stored_by: HashMap<u64, u8>,
}

impl FnState {
    fn slot(&self, actor: u8) -> u8 {
        if self.spec.flavour == Flavour::Thread {
            actor
        } else {
            0
        }
    }
}

// ---------------------------------------------------------------------------------------
// actor threads (engine ACT): real OS threads, exactly one of which runs at any time

type Job = Box<dyn FnOnce() + Send>;

struct Actor {
    tx: mpsc::Sender<Job>,
    handle: Option<std::thread::JoinHandle<()>>,
}

impl Actor {
    fn spawn(seed: u64) -> Actor {
        let (tx, rx) = mpsc::channel::<Job>();
        let handle = std::thread::spawn(move || {
            fastrand::seed(seed);
            while let Ok(job) = rx.recv() {
                job();
            }
        });
        Actor { tx, handle: Some(handle) }
    }
    fn run<T: Send + 'static>(&self, f: impl FnOnce() -> T + Send + 'static) -> T {
        let (rtx, rrx) = mpsc::channel::<T>();
        self.tx
            .send(Box::new(move || {
                let _ = rtx.send(f());
            }))
            .expect("actor alive");
        rrx.recv().expect("actor reply")
    }
    fn stop(mut self) {
        drop(self.tx);
        if let Some(h) = self.handle.take() {
            let _ = h.join();
        }
    }
}

#[derive(Default)]
pub struct Exec2 {
    pub deviation: Option<(usize, Clause)>,
    pub ops_done: usize,
    pub sim_ns: i64,
    pub counters: Counters,
    pub classes: BTreeSet<String>,
    pub states: BTreeSet<u64>,
    pub digest: u64,
}

fn panic_msg(e: Box<dyn std::any::Any + Send>) -> String {
    if let Some(s) = e.downcast_ref::<&str>() {
        s.to_string()
    } else if let Some(s) = e.downcast_ref::<String>() {
        s.clone()
    } else {
        "panic".to_string()
    }
}

fn do_call(f: &'static FnSpec, k: Key) -> Result<RetObs, String> {
    catch_unwind(AssertUnwindSafe(|| (f.call)(k))).map_err(panic_msg)
}

pub fn exec(case: &Case2, mut log: Option<&mut Vec<String>>) -> Exec2 {
    init_process();
    let mut out = Exec2::default();
    let multi = case.actors > 0;
    // ---- reset
    seams::set_now_ns(0);
    world::reset_run(case.fastrand_seed);
    fastrand::seed(case.fastrand_seed);
    let mut st: BTreeMap<u16, FnState> = BTreeMap::new();
    for id in &case.fns {
        let s = spec(*id);
        if registered(s) {
            cachelito_core::invalidate_with(s.reg_name, |_| true);
            cachelito_core::stats_registry::reset(s.reg_name);
        }
        st.insert(
            *id,
            FnState { spec: s, cfg: cfg_of(s), models: BTreeMap::new(), keymap: HashMap::new(), listed: BTreeSet::new(), inv_tainted: false, stored_by: HashMap::new() },
        );
    }
    let mut actors: BTreeMap<u8, Actor> = BTreeMap::new();
    let mut incarnation: BTreeMap<u8, u64> = BTreeMap::new();
    if multi {
        for a in 0..case.actors {
            actors.insert(a, Actor::spawn(mix(&[case.fastrand_seed, a as u64, 0])));
            incarnation.insert(a, 0);
        }
    }
    let mut now: i64 = 0;
    let mut digest: u64 = 0xcbf29ce484222325;
    let mut mixd = |x: u64| {
        digest ^= x;
        digest = digest.wrapping_mul(0x100000001b3);
    };

    'ops: for (i, op) in case.ops.iter().enumerate() {
        let res: Result<(), Clause> = (|| {
            match op {
                Op2::Adv(dt) => {
                    now += *dt;
                    seams::set_now_ns(now);
                    out.sim_ns += dt.abs();
                    out.counters.inc(if *dt < 0 { "fault.clock_backward" } else if *dt % SEC != 0 { "fault.clock_subsecond" } else { "fault.clock_forward" });
                    Ok(())
                }
                Op2::Respawn(a) => {
                    if let Some(old) = actors.remove(a) {
                        old.stop();
                        let inc = incarnation.get(a).cloned().unwrap_or(0) + 1;
                        incarnation.insert(*a, inc);
                        actors.insert(*a, Actor::spawn(mix(&[case.fastrand_seed, *a as u64, inc])));
                        for fs in st.values_mut() {
                            if fs.spec.flavour == Flavour::Thread {
                                fs.models.remove(a);
                            }
                        }
                        out.counters.inc("fault.thread_exit_respawn");
                    }
                    Ok(())
                }
                Op2::Call { a, f, k, err, size, shape, dur_ns, gates, inv, cif } => {
                    let fs = st.get_mut(f).expect("function in universe");
                    let sp = fs.spec;
                    let slot = fs.slot(*a);
                    let model = fs.models.entry(slot).or_insert_with(|| Model::new(fs.cfg.params.clone())).clone();
                    let script = Script { err: *err, size: *size, shape: *shape, dur_ns: *dur_ns, gates: *gates, inv_verdict: *inv, cif_verdict: *cif };
                    world::set_plan(*f, *k, script);
                    let (n_exec0, n_inv0, n_cif0) = world::with(|w| (w.execs.len(), w.inv_seen.len(), w.cif_seen.len()));
                    seams::set_now_ns(now);
                    let kk = *k;
                    let r = if multi {
                        actors.get(a).expect("actor").run(move || do_call(sp, kk))
                    } else {
                        do_call(sp, kk)
                    };
                    let ret = match r {
                        Ok(r) => r,
                        Err(msg) => {
                            return Err(Clause::new(
                                "panic",
                                &["C16"],
                                format!("call {}({}) [{}] panicked: {msg}", sp.fn_name, kk, sp.attrs),
                            ))
                        }
                    };
                    // the body may have advanced the clock
                    let now_after = seams::peek_now_ns();
                    // --- gather what happened
                    let (execs, inv_seen, cif_seen, unknown) = world::with(|w| {
                        (w.execs[n_exec0..].to_vec(), w.inv_seen[n_inv0..].to_vec(), w.cif_seen[n_cif0..].to_vec(), w.unknown_args.clone())
                    });
                    if !unknown.is_empty() {
                        return Err(Clause::new("args_changed", &["C01", "C19"], format!("body of {} received arguments {:?}", sp.fn_name, unknown)));
                    }
                    if execs.len() > 1 || execs.iter().any(|e| e.fn_id != *f || e.k != kk) {
                        return Err(Clause::new(
                            "wrong_body",
                            &["C01"],
                            format!("call {}({kk}) ran bodies {:?}", sp.fn_name, execs),
                        ));
                    }
                    // value correctness: the returned stamp must belong to an execution of this function with these arguments
                    let owner = world::with(|w| w.execs.iter().find(|e| e.stamp == ret.stamp).map(|e| (e.fn_id, e.k)));
                    if owner != Some((*f, kk)) {
                        return Err(Clause::new(
                            "wrong_value",
                            &["C01"],
                            format!("call {}({kk}) [{}] returned a value produced by {:?}", sp.fn_name, sp.attrs, owner),
                        ));
                    }
                    let exec_stamp = execs.first().map(|e| e.stamp);
                    // --- key listing / statistics
                    let mut keys_after = None;
                    let mut stats = None;
                    if registered(sp) {
                        let strs = list_keys(sp.reg_name).ok_or_else(|| {
                            Clause::new("not_registered", &["C13", "C19"], format!("invalidate_with does not know cache {:?}", sp.reg_name))
                        })?;
                        let newk: Vec<&String> = strs.iter().filter(|s| !fs.listed.contains(*s)).collect();
                        if exec_stamp.is_some() && newk.len() == 1 && !fs.keymap.contains_key(newk[0]) {
                            fs.keymap.insert(newk[0].clone(), kk);
                        }
                        let mut ks = BTreeSet::new();
                        for s in &strs {
                            match fs.keymap.get(s) {
                                Some(x) => {
                                    if !ks.insert(*x) {
                                        return Err(Clause::new("phantom_key", &["C01"], format!("{} lists two key strings for argument tuple {x}: {strs:?}", sp.fn_name)));
                                    }
                                }
                                None => {
                                    return Err(Clause::new("phantom_key", &["C01"], format!("{} lists key {s:?} that no call stored ({strs:?})", sp.fn_name)));
                                }
                            }
                        }
                        // predicates must be shown the key of this call
                        for (_, ks_seen, _) in inv_seen.iter().chain(cif_seen.iter()) {
                            if let Some(x) = fs.keymap.get(ks_seen) {
                                if *x != kk {
                                    return Err(Clause::new("predicate_key", &["C10", "C11"], format!("{} passed key {ks_seen:?} (tuple {x}) to a predicate during call for tuple {kk}", sp.fn_name)));
                                }
                            }
                        }
                        fs.listed = strs;
                        keys_after = Some(ks);
                        stats = stats_of(sp.reg_name);
                        if stats.is_none() {
                            return Err(Clause::new("stats_missing", &["C15"], format!("no statistics registered under {:?}", sp.reg_name)));
                        }
                    }
                    let obs = CallObs {
                        ret_stamp: ret.stamp,
                        ret_err: ret.is_err,
                        exec_stamp,
                        fp: ret.fp,
                        inv_seen: inv_seen.iter().map(|x| x.2).collect(),
                        cif_seen: cif_seen.iter().map(|x| x.2).collect(),
                        keys_after,
                        stats,
                    };
                    let plan = CallPlan { k: kk, err: *err, dur_ns: now_after - now, inv_verdict: *inv, cif_verdict: *cif };
                    // classes / probes
                    let cls = match (exec_stamp, model.e.contains_key(&kk)) {
                        (None, _) => "call:hit",
                        (Some(_), false) => "call:miss",
                        (Some(_), true) => {
                            if !inv_seen.is_empty() {
                                out.counters.inc("probe.stale_refresh");
                                "call:stale"
                            } else {
                                out.counters.inc("probe.expired_lookup");
                                "call:expired"
                            }
                        }
                    };
                    if !crate::gen2::modelled(sp) {
                        // executed for C16 / C19 only: no model comparison
                        now = now_after;
                        mixd(ret.stamp);
                        out.classes.insert(format!("f{}:{cls}:unmodelled", sp.id));
                        return Ok(());
                    }
                    let tainted = fs.inv_tainted;
                    // was the entry this call should have been served stored by another actor?
                    let stored_by_other = model.e.get(&kk).map_or(false, |e| fs.stored_by.get(&e.stamp).map_or(false, |a0| *a0 != *a));
                    let r = check_call(&model, &fs.cfg, &plan, &obs, now).map_err(|mut c| {
                        if tainted && matches!(c.name.as_str(), "needless_eviction" | "victim_count" | "wrong_victim" | "limit_exceeded" | "memory_exceeded" | "mem_overevict" | "phantom_hit" | "needless_execution") {
                            c.owners.push("C13".to_string());
                        }
                        // C14 owns what cross-thread interference explains: a thread-scope cache that
                        // serves / loses entries although this thread's own history says otherwise, or a
                        // shared cache that does not serve what another thread stored
                        if multi && sp.flavour == Flavour::Thread && matches!(c.name.as_str(), "phantom_hit" | "needless_execution" | "stale_value") {
                            c.owners.push("C14".to_string());
                        }
                        if multi && sp.flavour != Flavour::Thread && c.name == "needless_execution" && stored_by_other {
                            c.owners.push("C14".to_string());
                        }
                        c.detail = format!("{} | fn {} #[{}]", c.detail, sp.fn_name, sp.attrs);
                        c
                    })?;
                    now = now_after;
                    if let Some(st) = exec_stamp {
                        fs.stored_by.insert(st, *a);
                    }
                    if exec_stamp.is_some() {
                        let removed = model.e.keys().filter(|x| **x != kk && !r.e.contains_key(x)).count();
                        let stored = r.e.get(&kk).map_or(false, |e| Some(e.stamp) == exec_stamp);
                        out.classes.insert(format!("f{}:{cls}:{}:rm{removed}", sp.id, if stored { "stored" } else if *err { "err" } else { "unstored" }));
                        if removed > 0 {
                            out.counters.inc("probe.eviction");
                        }
                        if *err {
                            out.counters.inc("fault.body_err");
                        }
                        if sp.has_cache_if && !*cif {
                            out.counters.inc("fault.cache_if_reject");
                        }
                        if *dur_ns > 0 {
                            out.counters.inc("fault.slow_body");
                        }
                        if sp.max_memory.map_or(false, |m| ret.fp > m) {
                            out.counters.inc("probe.oversize_skipped");
                        }
                    } else {
                        out.classes.insert(format!("f{}:{cls}", sp.id));
                    }
                    mixd(ret.stamp);
                    mixd(exec_stamp.unwrap_or(0));
                    for x in r.e.keys() {
                        mixd(*x as u64 + 1);
                    }
                    fs.models.insert(slot, r);
                    Ok(())
                }
                Op2::StatsReset(name) => {
                    let ok = cachelito_core::stats_registry::reset(name);
                    let exp = SPECS.iter().any(|s| registered(s) && s.reg_name == name);
                    if ok != exp {
                        return Err(Clause::new("stats_reset_result", &["C15"], format!("stats_registry::reset({name:?}) returned {ok}, expected {exp}")));
                    }
                    for fs in st.values_mut() {
                        if registered(fs.spec) && fs.spec.reg_name == name {
                            if let Some(m) = fs.models.get_mut(&0) {
                                m.stat_hits = 0;
                                m.stat_misses = 0;
                            }
                        }
                    }
                    out.counters.inc("fault.stats_reset");
                    check_all_stats(&st)
                }
                Op2::InvTag(_) | Op2::InvEvent(_) | Op2::InvDep(_) | Op2::InvName(_) => {
                    let (got, exp, matches): (usize, usize, Box<dyn Fn(&FnSpec) -> bool>) = match op {
                        Op2::InvTag(t) => {
                            let t2 = t.clone();
                            let m = move |s: &FnSpec| registered(s) && has_meta(s) && s.tags.contains(&t2.as_str());
                            (cachelito_core::invalidate_by_tag(t), SPECS.iter().filter(|s| m(s)).count(), Box::new(m))
                        }
                        Op2::InvEvent(t) => {
                            let t2 = t.clone();
                            let m = move |s: &FnSpec| registered(s) && has_meta(s) && s.events.contains(&t2.as_str());
                            (cachelito_core::invalidate_by_event(t), SPECS.iter().filter(|s| m(s)).count(), Box::new(m))
                        }
                        Op2::InvDep(t) => {
                            let t2 = t.clone();
                            let m = move |s: &FnSpec| registered(s) && has_meta(s) && s.deps.contains(&t2.as_str());
                            (cachelito_core::invalidate_by_dependency(t), SPECS.iter().filter(|s| m(s)).count(), Box::new(m))
                        }
                        Op2::InvName(t) => {
                            let t2 = t.clone();
                            let m = move |s: &FnSpec| registered(s) && has_meta(s) && s.reg_name == t2;
                            (cachelito_core::invalidate_cache(t) as usize, SPECS.iter().filter(|s| m(s)).count(), Box::new(m))
                        }
                        _ => unreachable!(),
                    };
                    out.counters.inc("fault.group_invalidation");
                    if exp == 0 {
                        out.counters.inc("fault.group_invalidation_unknown_name");
                    }
                    // the count is judged last: a wrong count and a cache that was wrongly emptied / kept are
                    // two symptoms, and each property must get to see its own
                    let count_wrong = got != exp;
                    let mut hit = 0;
                    for fs in st.values_mut() {
                        if !registered(fs.spec) {
                            continue;
                        }
                        let strs = list_keys(fs.spec.reg_name).unwrap_or_default();
                        if matches(fs.spec) {
                            hit += 1;
                            if !strs.is_empty() {
                                return Err(Clause::new("group_not_emptied", &["C12"], format!("after {op:?} cache {} [{}] still holds {strs:?}", fs.spec.reg_name, fs.spec.attrs)));
                            }
                            if let Some(m) = fs.models.get_mut(&0) {
                                if m.clear() > 0 {
                                    out.counters.inc("probe.group_invalidation_removed_entries");
                                    // only an invalidation that removed something can leave bookkeeping behind
                                    fs.inv_tainted = true;
                                }
                            }
                        } else if strs != fs.listed {
                            let owners: &[&str] = if count_wrong { &["C13", "C12"] } else { &["C13"] };
                            return Err(Clause::new("collateral_invalidation", owners, format!("{op:?} changed cache {} [{}] which does not match: {:?} -> {strs:?}", fs.spec.reg_name, fs.spec.attrs, fs.listed)));
                        }
                        fs.listed = strs;
                    }
                    if count_wrong {
                        return Err(Clause::new("group_count", &["C12"], format!("{op:?} returned {got}, {exp} registered caches match")));
                    }
                    if hit >= 2 {
                        out.counters.inc("probe.group_invalidation_hit_2_caches");
                    }
                    out.classes.insert(format!("inv:group:{}", hit.min(3)));
                    check_all_stats(&st)
                }
                Op2::InvWith { name, mask } => {
                    let target: Option<u16> = st.values().find(|fs| registered(fs.spec) && fs.spec.reg_name == name).map(|fs| fs.spec.id);
                    let km: HashMap<String, Key> = target.map(|t| st[&t].keymap.clone()).unwrap_or_default();
                    let m = *mask;
                    let got = cachelito_core::invalidate_with(name, |k: &str| km.get(k).map_or(false, |x| m & (1 << x) != 0));
                    let exp = SPECS.iter().any(|s| registered(s) && s.reg_name == name);
                    out.counters.inc("fault.invalidate_with");
                    if got != exp {
                        return Err(Clause::new("inv_with_result", &["C13"], format!("invalidate_with({name:?}) returned {got}, expected {exp}")));
                    }
                    let masks: Vec<(u16, u8)> = target.map(|t| vec![(t, m)]).unwrap_or_default();
                    check_after_conditional(&mut st, &masks, &format!("{op:?}"), &mut out)?;
                    check_all_stats(&st)
                }
                Op2::InvAllWith(masks) => {
                    let tables: HashMap<&str, (HashMap<String, Key>, u8)> = masks
                        .iter()
                        .filter_map(|(f, m)| st.get(f).map(|fs| (fs.spec.reg_name, (fs.keymap.clone(), *m))))
                        .collect();
                    let got = cachelito_core::invalidate_all_with(|name: &str, k: &str| {
                        tables.get(name).map_or(false, |(km, m)| km.get(k).map_or(false, |x| m & (1 << x) != 0))
                    });
                    let exp = SPECS.iter().filter(|s| registered(s)).count();
                    out.counters.inc("fault.invalidate_all_with");
                    if got != exp {
                        return Err(Clause::new("inv_all_with_result", &["C13"], format!("invalidate_all_with visited {got} caches, {exp} are registered")));
                    }
                    check_after_conditional(&mut st, masks, &format!("{op:?}"), &mut out)?;
                    check_all_stats(&st)
                }
            }
        })();
        if let Some(l) = log.as_deref_mut() {
            l.push(format!("{i}: {op:?} now={now} -> {}", match &res { Ok(()) => "ok".to_string(), Err(c) => format!("DEVIATION {}: {}", c.name, c.detail) }));
        }
        match res {
            Ok(()) => {
                out.ops_done += 1;
                if let Op2::Call { f, a, .. } = op {
                    let fs = &st[f];
                    if let Some(m) = fs.models.get(&fs.slot(*a)) {
                        let mut s = format!("{}:", fs.spec.id);
                        for (k, e) in &m.e {
                            s.push_str(&format!("{k}:{}:{};", e.hits, e.used_seq));
                        }
                        out.states.insert(simcore::report::hash_str(&s));
                    }
                }
            }
            Err(c) => {
                out.deviation = Some((i, c));
                break 'ops;
            }
        }
    }
    for (_, a) in actors {
        a.stop();
    }
    out.digest = digest;
    out
}

fn check_all_stats(st: &BTreeMap<u16, FnState>) -> Result<(), Clause> {
    for fs in st.values() {
        if !registered(fs.spec) {
            continue;
        }
        let exp = fs.models.get(&0).map_or((0, 0), |m| (m.stat_hits, m.stat_misses));
        let got = stats_of(fs.spec.reg_name);
        if got != Some(exp) {
            return Err(Clause::new(
                "stats_mismatch",
                &["C15"],
                format!("statistics of {:?}: observed {got:?}, expected {exp:?} [{}]", fs.spec.reg_name, fs.spec.attrs),
            ));
        }
    }
    Ok(())
}

/// After invalidate_with / invalidate_all_with: every cache lists exactly its previous keys
/// minus those selected by its mask.
fn check_after_conditional(st: &mut BTreeMap<u16, FnState>, masks: &[(u16, u8)], what: &str, out: &mut Exec2) -> Result<(), Clause> {
    for fs in st.values_mut() {
        if !registered(fs.spec) {
            continue;
        }
        let mask = masks.iter().find(|(f, _)| *f == fs.spec.id).map_or(0, |x| x.1);
        let strs = list_keys(fs.spec.reg_name).unwrap_or_default();
        let exp: BTreeSet<String> = fs
            .listed
            .iter()
            .filter(|s| fs.keymap.get(*s).map_or(true, |x| mask & (1 << x) == 0))
            .cloned()
            .collect();
        if strs != exp {
            let name = if mask == 0 { "collateral_invalidation" } else { "inv_with_imprecise" };
            return Err(Clause::new(
                name,
                &["C13"],
                format!("after {what} cache {} [{}] lists {strs:?}, expected {exp:?} (before: {:?})", fs.spec.reg_name, fs.spec.attrs, fs.listed),
            ));
        }
        if mask != 0 {
            let removed = fs.listed.len() - strs.len();
            if removed > 0 && !strs.is_empty() {
                out.counters.inc("probe.conditional_invalidation_strict_subset");
            }
            out.classes.insert(format!("f{}:inv:with:{}:{}", fs.spec.id, removed.min(3), strs.len().min(3)));
            if let Some(m) = fs.models.get_mut(&0) {
                if m.invalidate(&|k| mask & (1 << k) != 0) > 0 {
                    fs.inv_tainted = true;
                }
            }
        }
        fs.listed = strs;
    }
    Ok(())
}
