//! Engine DIFF (C19): a macro-generated function and a core cache constructed directly with
//! the attribute values *as written* are driven through the same seeded history (same clock
//! script, same fastrand seed, same body script); hit/miss/execution traces and key sets must
//! be identical. The wrapper logic (lookup, invalidate_on, body, cache_if / Result rule, store)
//! is re-stated here in a dozen lines from the README.

use crate::common::*;
use crate::corpus::FnSpec;
use crate::gen2::gen_case2;
use crate::l1::{dyn_drv, Dyn1};
use crate::l2::{list_keys, params_of, registered, spec, Case2, Op2};
use crate::world::{self, Script};
use cachelito_core::verif_seams as seams;
use simcore::check::Clause;
use simcore::model::*;
use simcore::report::*;
use std::collections::{BTreeSet, HashMap};
use std::panic::{catch_unwind, AssertUnwindSafe};

pub const RULE: &str = "one evaluation = one corpus function and one directly configured core cache driven through the same seeded history of 8-48 calls / clock steps / conditional invalidations with identical fastrand seeds; per operation the executed-or-served flag, the identity of the served value (n-th execution) and the key set must agree. distinct_nontrivial counts distinct (function id, operation outcome) pairs other than a first miss";

#[derive(Debug, PartialEq, Clone)]
struct Obs {
    executed: bool,
    /// index (1-based) of the execution whose value was returned
    value_of_exec: u64,
    keys: Option<BTreeSet<Key>>,
}

fn vtype_of(s: &FnSpec) -> u8 {
    match s.ret_kind {
        "p1" => 0,
        "p0" => 1,
        "p2" => 2,
        "p3" => 3,
        "p4" => 4,
        "p6" => 5,
        "p5" => 7,
        "p7" => 8,
        "r0" if s.max_memory.is_some() => 9,
        "r1" if s.max_memory.is_some() => 10,
        "r2" if s.max_memory.is_some() => 11,
        _ => 1,
    }
}

pub fn in_pool(s: &FnSpec) -> bool {
    // (an async Result function with cache_if may store an Err, which the L1 side cannot build)
    !(s.is_result && s.max_memory.is_some() && s.is_async && s.has_cache_if) && s.family != "nested"
}

fn mask_of(op: &Op2, f: u16, reg: &str) -> Option<u8> {
    match op {
        Op2::InvWith { name, mask } if name == reg => Some(*mask),
        Op2::InvAllWith(m) => m.iter().find(|x| x.0 == f).map(|x| x.1),
        _ => None,
    }
}

fn trace_l2(s: &'static FnSpec, case: &Case2) -> Result<Vec<Obs>, String> {
    seams::set_now_ns(0);
    world::reset_run(case.fastrand_seed);
    fastrand::seed(case.fastrand_seed);
    if registered(s) {
        cachelito_core::invalidate_with(s.reg_name, |_| true);
    }
    let mut out = Vec::new();
    let mut now = 0i64;
    let mut keymap: HashMap<String, Key> = HashMap::new();
    let mut listed: BTreeSet<String> = BTreeSet::new();
    for op in &case.ops {
        match op {
            Op2::Adv(dt) => {
                now += *dt;
                seams::set_now_ns(now);
            }
            Op2::Call { k, err, size, shape, dur_ns, gates, inv, cif, .. } => {
                world::set_plan(s.id, *k, Script { err: *err, size: *size, shape: *shape, dur_ns: *dur_ns, gates: *gates, inv_verdict: *inv, cif_verdict: *cif });
                let n0 = world::with(|w| w.execs.len());
                seams::set_now_ns(now);
                let r = catch_unwind(AssertUnwindSafe(|| (s.call)(*k))).map_err(|_| format!("{} panicked", s.fn_name))?;
                now = seams::peek_now_ns();
                let executed = world::with(|w| w.execs.len() > n0);
                let mut keys = None;
                if registered(s) {
                    let strs = list_keys(s.reg_name).unwrap_or_default();
                    let newk: Vec<&String> = strs.iter().filter(|x| !listed.contains(*x)).collect();
                    if executed && newk.len() == 1 && !keymap.contains_key(newk[0]) {
                        keymap.insert(newk[0].clone(), *k);
                    }
                    keys = Some(strs.iter().map(|x| *keymap.get(x).unwrap_or(&255)).collect());
                    listed = strs;
                }
                out.push(Obs { executed, value_of_exec: r.stamp, keys });
            }
            _ => {
                if let Some(m) = mask_of(op, s.id, s.reg_name) {
                    if registered(s) {
                        cachelito_core::invalidate_with(s.reg_name, |k: &str| keymap.get(k).map_or(false, |x| m & (1 << x) != 0));
                        let strs = list_keys(s.reg_name).unwrap_or_default();
                        out.push(Obs { executed: false, value_of_exec: 0, keys: Some(strs.iter().map(|x| *keymap.get(x).unwrap_or(&255)).collect()) });
                        listed = strs;
                    }
                }
            }
        }
    }
    Ok(out)
}

/// The same history through a core cache configured directly, with the wrapper logic restated.
fn trace_l1(s: &'static FnSpec, case: &Case2) -> Result<Vec<Obs>, String> {
    let p: Params = params_of(s);
    let drv: Box<dyn Dyn1> = dyn_drv(vtype_of(s), s.flavour);
    drv.reset();
    seams::set_now_ns(0);
    fastrand::seed(case.fastrand_seed);
    let mut out = Vec::new();
    let mut now = 0i64;
    let mut execs: u64 = 0;
    let key = |k: Key| format!("k{k}");
    let keys_of = |d: &dyn Dyn1| -> BTreeSet<Key> { d.keys().iter().map(|x| x[1..].parse::<u8>().unwrap_or(255)).collect() };
    for op in &case.ops {
        match op {
            Op2::Adv(dt) => {
                now += *dt;
                seams::set_now_ns(now);
            }
            Op2::Call { k, err, size, shape, dur_ns, inv, cif, .. } => {
                seams::set_now_ns(now);
                let r = catch_unwind(AssertUnwindSafe(|| {
                    let hit = drv.get(&p, &key(*k));
                    if let Some(st) = hit {
                        if !(s.has_inv_on && *inv) {
                            return (false, st);
                        }
                    }
                    execs += 1;
                    now += *dur_ns;
                    seams::set_now_ns(now);
                    let is_err = s.is_result && *err;
                    let mut keep = if s.has_cache_if { *cif } else { true };
                    if s.is_result {
                        if s.flavour == Flavour::Async {
                            if !s.has_cache_if && is_err {
                                keep = false;
                            }
                        } else if is_err {
                            keep = false;
                        }
                    }
                    if keep {
                        drv.put(&p, &key(*k), execs, *size as usize, *shape);
                    }
                    (true, execs)
                }))
                .map_err(|_| "core cache panicked".to_string())?;
                out.push(Obs { executed: r.0, value_of_exec: r.1, keys: if registered(s) { Some(keys_of(&*drv)) } else { None } });
            }
            _ => {
                if let Some(m) = mask_of(op, s.id, s.reg_name) {
                    if registered(s) {
                        drv.remove_where(&p, &|k: &str| k[1..].parse::<u8>().map_or(false, |x| m & (1 << x) != 0));
                        out.push(Obs { executed: false, value_of_exec: 0, keys: Some(keys_of(&*drv)) });
                    }
                }
            }
        }
    }
    Ok(out)
}

pub fn compare(case: &Case2) -> Option<(usize, Clause)> {
    crate::l2::init_process();
    let s = spec(case.fns[0]);
    let run = || (trace_l2(s, case), trace_l1(s, case));
    let (a, b) = if s.flavour == Flavour::Thread { std::thread::scope(|sc| sc.spawn(run).join().unwrap()) } else { run() };
    let (a, b) = match (a, b) {
        (Ok(a), Ok(b)) => (a, b),
        (Err(e), _) | (_, Err(e)) => return Some((0, Clause::new("panic", &["C16"], e))),
    };
    for (i, (x, y)) in a.iter().zip(b.iter()).enumerate() {
        if x != y {
            let what = if x.executed != y.executed {
                "executed/served"
            } else if x.value_of_exec != y.value_of_exec {
                "served value"
            } else {
                "key set"
            };
            return Some((
                i,
                Clause::new(
                    "macro_differs_from_core",
                    &["C19"],
                    format!("observation {i} differs in {what}: generated function {} #[{}] gave {:?}, the core cache configured as written ({}) gave {:?}", s.fn_name, s.attrs, x, params_of(s).short(), y),
                ),
            ));
        }
    }
    None
}

fn gen(seed: u64, run: u64) -> Case2 {
    // one function per run, walking through the whole corpus
    let mut c = gen_case2("C19", seed, run);
    let pool: Vec<u16> = crate::corpus::SPECS.iter().filter(|s| in_pool(s)).map(|s| s.id).collect();
    let f = pool[(run % pool.len() as u64) as usize];
    // re-target every operation at f
    let s = spec(f);
    for op in c.ops.iter_mut() {
        match op {
            Op2::Call { f: g, k, err, size, .. } => {
                *g = f;
                *k %= s.nkeys.max(1);
                *err = *err && s.is_result;
                if let Some(m) = s.max_memory {
                    let m = m as u32;
                    let c = [0, m / 8, m / 4, m / 3, m / 2, m.saturating_sub(64), m.saturating_sub(40), m, 2 * m];
                    *size = c[(*size as usize) % c.len()];
                } else {
                    *size %= 9;
                }
            }
            Op2::InvWith { name, .. } => *name = s.reg_name.to_string(),
            Op2::InvAllWith(m) => {
                for x in m.iter_mut() {
                    x.0 = f;
                }
            }
            _ => {}
        }
    }
    c.ops.retain(|op| matches!(op, Op2::Call { .. } | Op2::Adv(_) | Op2::InvWith { .. } | Op2::InvAllWith(_)));
    // whole seconds for async TLRU with ttl
    if s.flavour == Flavour::Async && s.policy == Policy::Tlru && s.ttl.is_some() {
        for op in c.ops.iter_mut() {
            match op {
                Op2::Adv(d) => *d = (*d / SEC).max(1) * SEC,
                Op2::Call { dur_ns, .. } => *dur_ns = (*dur_ns / SEC) * SEC,
                _ => {}
            }
        }
    }
    if s.flavour != Flavour::Async {
        for op in c.ops.iter_mut() {
            if let Op2::Adv(d) = op {
                *d = d.abs();
            }
        }
    }
    c.fns = vec![f];
    c.actors = 0;
    c
}

fn child_fails(args: &BatchArgs, case: &Case2) -> bool {
    let dir = args.replay_dir.join("tmp");
    std::fs::create_dir_all(&dir).ok();
    let path = dir.join(format!("cand-diff-{}.json", std::process::id()));
    let rp = Replay { property: "C19".into(), clause: "macro_differs_from_core".into(), signature: String::new(), detail: String::new(), engine: "diff".into(), run_seed: 0, case: serde_json::json!({ "diff": case }) };
    std::fs::write(&path, serde_json::to_string(&rp).unwrap()).expect("write");
    let st = std::process::Command::new(std::env::current_exe().unwrap()).arg("replay").arg(&path).arg("--quiet").stdout(std::process::Stdio::null()).stderr(std::process::Stdio::null()).status();
    let _ = std::fs::remove_file(&path);
    matches!(st.map(|s| s.code()), Ok(Some(1)))
}

pub fn run_batch(args: BatchArgs) -> i32 {
    let mut b = Batch::new(args.clone(), RULE);
    for run in args.start..args.start + args.runs {
        let seed = args.run_seed(run);
        let case = gen(seed, run);
        simcore::watchdog::begin_case(seed, serde_json::json!({"diff": case}));
        let r = compare(&case);
        simcore::watchdog::end_case();
        b.res.runs += 1;
        b.res.ops += case.ops.len() as u64;
        let s = spec(case.fns[0]);
        b.res.counters.inc(&format!("family.{}", s.family));
        b.res.states.insert(s.id as u64);
        b.res.distinct.insert(hash_str(&format!("{}|{}", s.id, case.ops.len() % 7)));
        if args.log_digests {
            println!("DIGEST {run} {:016x}", hash_str(&format!("{:?}", r.as_ref().map(|x| x.0))));
        }
        if b.res.samples.len() < 2 && case.ops.len() < 14 {
            b.res.samples.push(serde_json::json!({"run": run, "function": format!("{} #[{}]", s.fn_name, s.attrs), "case": case}));
        }
        if let Some((_, c)) = r {
            if c.owned_by(&args.prop) {
                // minimise with fresh processes (macro statics cannot be reset completely)
                let mut best = case.clone();
                if !child_fails(&args, &best) {
                    // does not reproduce on its own in a fresh process: the difference comes from
                    // state an earlier run left behind in the macro's statics (which cannot be reset
                    // completely), not from the macro disagreeing with the core cache
                    b.res.foreign_deviations += 1;
                    b.res.counters.inc("foreign.not_reproducible_alone");
                    continue;
                }
                {
                    let base = best.clone();
                    let mut pred = |ops: &[Op2]| {
                        let mut t = base.clone();
                        t.ops = ops.to_vec();
                        child_fails(&args, &t)
                    };
                    best.ops = ddmin(base.ops.clone(), &mut pred, std::time::Duration::from_secs(30));
                }
                let sig = format!("macro_differs_from_core|{:?}|{}|limit={}|ttl={}|mem={}", s.flavour, s.policy.name(), s.limit.is_some(), s.ttl.is_some(), s.max_memory.is_some());
                if b.violation(&c, sig, seed, serde_json::json!({"diff": best, "function": format!("{} #[{}]", s.fn_name, s.attrs)})) {
                    break;
                }
            } else {
                b.res.foreign_deviations += 1;
                b.res.counters.inc(&format!("foreign.{}", c.name));
            }
        }
    }
    b.finish()
}

pub fn replay(rp: &Replay, path: &str, quiet: bool) -> i32 {
    let case: Case2 = serde_json::from_value(rp.case["diff"].clone()).expect("case");
    match compare(&case) {
        Some((i, c)) if c.owned_by(&rp.property) => {
            if !quiet {
                println!("  case: {}", serde_json::to_string(&case).unwrap());
                println!("VIOLATION property={} replay={}", rp.property, path);
                println!("  clause={} at observation {i}: {}", c.name, c.detail);
            }
            1
        }
        _ => {
            if !quiet {
                println!("NOT-REPRODUCED property={}", rp.property);
            }
            3
        }
    }
}
