//! Batch runner, minimiser and replay for engines SEQ/ACT at level L2.

use crate::common::*;
use crate::gen2::*;
use crate::l2::*;
use simcore::check::Clause;
use simcore::report::*;
use std::time::Duration;

pub const RULE: &str = "one evaluation = one seeded history (8-48 operations: calls with scripted body outcome / size / duration / predicate verdicts, clock steps, group and conditional invalidations, statistics resets, actor respawns) over a universe of 1-6 macro-generated corpus functions; every operation is compared with the reference model through return value, execution log, predicate log, key listing and statistics. distinct_nontrivial counts distinct (function id, outcome class) pairs whose class is not a plain first miss (hits, expiries, stale refreshes, evictions, rejected / Err results, invalidations that removed entries)";

fn signature(case: &Case2, c: &Clause, at: usize) -> String {
    let f = match case.ops.get(at) {
        Some(Op2::Call { f, .. }) => {
            let s = spec(*f);
            format!("{:?}|{}|limit={}|ttl={}|mem={}|inv_on={}|cache_if={}|result={}", s.flavour, s.policy.name(), s.limit.is_some(), s.ttl.is_some(), s.max_memory.is_some(), s.has_inv_on, s.has_cache_if, s.is_result)
        }
        Some(op) => format!("{}", format!("{op:?}").split(|c: char| !c.is_alphanumeric()).next().unwrap_or("")),
        None => String::new(),
    };
    format!("{}|{}", c.name, f)
}

fn fails_same(case: &Case2, prop: &str, clause: &str) -> bool {
    match exec(case, None).deviation {
        Some((_, c)) => c.name == clause && c.owned_by(prop),
        None => false,
    }
}

pub fn minimise(case: &Case2, prop: &str, clause: &str) -> Case2 {
    let mut best = case.clone();
    if let Some((i, _)) = exec(&best, None).deviation {
        best.ops.truncate(i + 1);
    }
    let base = best.clone();
    let mut pred = |ops: &[Op2]| {
        let mut c = base.clone();
        c.ops = ops.to_vec();
        fails_same(&c, prop, clause)
    };
    best.ops = ddmin(base.ops.clone(), &mut pred, Duration::from_secs(20));
    let mut changed = true;
    while changed {
        changed = false;
        for i in 0..best.ops.len() {
            let cands: Vec<Op2> = match best.ops[i].clone() {
                Op2::Call { a, f, k, err, size, shape, dur_ns, gates, inv, cif } => {
                    let mut v = vec![];
                    if size != 0 {
                        v.push(Op2::Call { a, f, k, err, size: 0, shape, dur_ns, gates, inv, cif });
                        v.push(Op2::Call { a, f, k, err, size: size / 2, shape, dur_ns, gates, inv, cif });
                    }
                    if shape != 0 {
                        v.push(Op2::Call { a, f, k, err, size, shape: 0, dur_ns, gates, inv, cif });
                    }
                    if dur_ns != 0 {
                        v.push(Op2::Call { a, f, k, err, size, shape, dur_ns: 0, gates, inv, cif });
                    }
                    if gates != 1 {
                        v.push(Op2::Call { a, f, k, err, size, shape, dur_ns, gates: 1, inv, cif });
                    }
                    if err {
                        v.push(Op2::Call { a, f, k, err: false, size, shape, dur_ns, gates, inv, cif });
                    }
                    if a != 0 {
                        v.push(Op2::Call { a: 0, f, k, err, size, shape, dur_ns, gates, inv, cif });
                    }
                    v
                }
                Op2::Adv(d) if d != 1_000_000_000 => vec![Op2::Adv(1_000_000_000)],
                _ => vec![],
            };
            for c in cands {
                let mut t = best.clone();
                t.ops[i] = c;
                if fails_same(&t, prop, clause) {
                    best = t;
                    changed = true;
                    break;
                }
            }
        }
    }
    // drop functions nobody uses any more
    let used: Vec<u16> = best
        .fns
        .iter()
        .cloned()
        .filter(|f| {
            best.ops.iter().any(|op| match op {
                Op2::Call { f: g, .. } => g == f,
                Op2::InvWith { name, .. } | Op2::InvName(name) | Op2::StatsReset(name) => spec(*f).reg_name == name,
                Op2::InvAllWith(m) => m.iter().any(|x| x.0 == *f),
                _ => false,
            })
        })
        .collect();
    if !used.is_empty() && used.len() < best.fns.len() {
        let mut t = best.clone();
        t.fns = used;
        if fails_same(&t, prop, clause) {
            best = t;
        }
    }
    best
}

pub fn run_batch(args: BatchArgs) -> i32 {
    let mut b = Batch::new(args.clone(), RULE);
    let prop = args.prop.clone();
    for run in args.start..args.start + args.runs {
        if b.out_of_time() {
            break;
        }
        let seed = args.run_seed(run);
        let case = gen_case2(&prop, seed, run);
        let ex = exec(&case, None);
        b.res.runs += 1;
        b.res.ops += ex.ops_done as u64;
        b.res.sim_ns += ex.sim_ns as i128;
        b.res.counters.merge(&ex.counters);
        b.res.digest = simcore::rng::mix(&[b.res.digest, ex.digest]);
        if args.log_digests {
            println!("DIGEST {run} {:016x}", ex.digest);
        }
        for f in &case.fns {
            b.res.counters.inc(&format!("family.{}", spec(*f).family));
        }
        if case.actors > 1 {
            b.res.counters.inc("fault.multi_actor_run");
        }
        let fkey = case.fns.iter().map(|f| f.to_string()).collect::<Vec<_>>().join(",");
        for c in &ex.classes {
            if !(c.starts_with("call:miss:stored:rm0")) {
                b.res.distinct.insert(hash_str(&format!("{fkey}|{c}")));
            }
        }
        for s in &ex.states {
            b.res.states.insert(*s);
        }
        if b.res.samples.len() < 2 && ex.deviation.is_none() && case.ops.len() < 20 {
            let fns: Vec<String> = case.fns.iter().map(|f| format!("{} #[{}]", spec(*f).fn_name, spec(*f).attrs)).collect();
            b.res.samples.push(serde_json::json!({"run": run, "run_seed": seed, "functions": fns, "case": case}));
        }
        if let Some((i, c)) = ex.deviation {
            if c.owned_by(&prop) {
                let min = minimise(&case, &prop, &c.name);
                let (clause, at) = match exec(&min, None).deviation {
                    Some((j, c2)) => (c2, j),
                    None => (c.clone(), i),
                };
                let sig = signature(&min, &clause, at);
                let fns: Vec<String> = min.fns.iter().map(|f| format!("{} #[{}]", spec(*f).fn_name, spec(*f).attrs)).collect();
                let stop = b.violation(&clause, sig, seed, serde_json::json!({"l2": min, "functions": fns, "original_ops": case.ops.len(), "failed_at": i}));
                if stop {
                    break;
                }
            } else {
                b.res.foreign_deviations += 1;
                b.res.counters.inc(&format!("foreign.{}", c.name));
            }
        }
    }
    b.finish()
}

pub fn replay(rp: &Replay, path: &str) -> i32 {
    let case: Case2 = serde_json::from_value(rp.case["l2"].clone()).expect("case");
    let mut log = Vec::new();
    let ex = exec(&case, Some(&mut log));
    for l in &log {
        println!("  {l}");
    }
    match ex.deviation {
        Some((i, c)) if c.name == rp.clause && c.owned_by(&rp.property) => {
            println!("VIOLATION property={} replay={}", rp.property, path);
            println!("  clause={} at operation {i}: {}", c.name, c.detail);
            1
        }
        other => {
            println!("NOT-REPRODUCED property={} expected clause {} got {:?}", rp.property, rp.clause, other.map(|x| x.1.name));
            3
        }
    }
}
