//! Batch runner, minimiser and replay for engines SEQ/ACT at level L2.

use crate::common::*;
use crate::gen2::*;
use crate::l2::*;
use simcore::check::Clause;
use simcore::report::*;
use std::time::Duration;

pub const RULE: &str = "one evaluation = one seeded history (8-48 operations: calls with scripted body outcome / size / duration / predicate verdicts, clock steps, group and conditional invalidations, statistics resets, actor respawns) over a universe of 1-6 macro-generated corpus functions; every operation is compared with the reference model through return value, execution log, predicate log, key listing and statistics. distinct_nontrivial counts distinct (function id, outcome class) pairs whose class is not a plain first miss (hits, expiries, stale refreshes, evictions, rejected / Err results, invalidations that removed entries)";

fn signature(case: &Case2, c: &Clause, at: usize) -> String {
    let f = match case.ops.get(at) {
        Some(Op2::Call { f, .. }) => {
            let s = spec(*f);
            format!("{:?}|{}|limit={}|ttl={}|mem={}|inv_on={}|cache_if={}|result={}", s.flavour, s.policy.name(), s.limit.is_some(), s.ttl.is_some(), s.max_memory.is_some(), s.has_inv_on, s.has_cache_if, s.is_result)
        }
        Some(op) => format!("{}", format!("{op:?}").split(|c: char| !c.is_alphanumeric()).next().unwrap_or("")),
        None => String::new(),
    };
    format!("{}|{}", c.name, f)
}

fn fails_same(case: &Case2, prop: &str, clause: &str) -> bool {
    match exec(case, None).deviation {
        Some((_, c)) => c.name == clause && c.owned_by(prop),
        None => false,
    }
}

pub fn minimise(case: &Case2, prop: &str, clause: &str) -> Case2 {
    let mut best = case.clone();
    if let Some((i, _)) = exec(&best, None).deviation {
        best.ops.truncate(i + 1);
    }
    let base = best.clone();
    let mut pred = |ops: &[Op2]| {
        let mut c = base.clone();
        c.ops = ops.to_vec();
        fails_same(&c, prop, clause)
    };
    best.ops = ddmin(base.ops.clone(), &mut pred, Duration::from_secs(20));
    let mut changed = true;
    while changed {
        changed = false;
        for i in 0..best.ops.len() {
            let cands: Vec<Op2> = match best.ops[i].clone() {
                Op2::Call { a, f, k, err, size, shape, dur_ns, gates, inv, cif } => {
                    let mut v = vec![];
                    if size != 0 {
                        v.push(Op2::Call { a, f, k, err, size: 0, shape, dur_ns, gates, inv, cif });
                        v.push(Op2::Call { a, f, k, err, size: size / 2, shape, dur_ns, gates, inv, cif });
                    }
                    if shape != 0 {
                        v.push(Op2::Call { a, f, k, err, size, shape: 0, dur_ns, gates, inv, cif });
                    }
                    if dur_ns != 0 {
                        v.push(Op2::Call { a, f, k, err, size, shape, dur_ns: 0, gates, inv, cif });
                    }
                    if gates != 1 {
                        v.push(Op2::Call { a, f, k, err, size, shape, dur_ns, gates: 1, inv, cif });
                    }
                    if err {
                        v.push(Op2::Call { a, f, k, err: false, size, shape, dur_ns, gates, inv, cif });
                    }
                    if a != 0 {
                        v.push(Op2::Call { a: 0, f, k, err, size, shape, dur_ns, gates, inv, cif });
                    }
                    v
                }
                Op2::Adv(d) if d != 1_000_000_000 => vec![Op2::Adv(1_000_000_000)],
                _ => vec![],
            };
            for c in cands {
                let mut t = best.clone();
                t.ops[i] = c;
                if fails_same(&t, prop, clause) {
                    best = t;
                    changed = true;
                    break;
                }
            }
        }
    }
    // drop functions nobody uses any more
    let used: Vec<u16> = best
        .fns
        .iter()
        .cloned()
        .filter(|f| {
            best.ops.iter().any(|op| match op {
                Op2::Call { f: g, .. } => g == f,
                Op2::InvWith { name, .. } | Op2::InvName(name) | Op2::StatsReset(name) => spec(*f).reg_name == name,
                Op2::InvAllWith(m) => m.iter().any(|x| x.0 == *f),
                _ => false,
            })
        })
        .collect();
    if !used.is_empty() && used.len() < best.fns.len() {
        let mut t = best.clone();
        t.fns = used;
        if fails_same(&t, prop, clause) {
            best = t;
        }
    }
    best
}

pub fn run_batch(args: BatchArgs) -> i32 {
    let mut b = Batch::new(args.clone(), RULE);
    let prop = args.prop.clone();
    for run in args.start..args.start + args.runs {
        if b.out_of_time() {
            break;
        }
        let seed = args.run_seed(run);
        let case = gen_case2(&prop, seed, run);
        simcore::watchdog::begin_case(seed, serde_json::json!({"l2_seq": [case]}));
        let ex = exec(&case, None);
        simcore::watchdog::end_case();
        b.res.runs += 1;
        b.res.ops += ex.ops_done as u64;
        b.res.sim_ns += ex.sim_ns as i128;
        b.res.counters.merge(&ex.counters);
        b.res.digest = simcore::rng::mix(&[b.res.digest, ex.digest]);
        if args.log_digests {
            println!("DIGEST {run} {:016x}", ex.digest);
        }
        for f in &case.fns {
            b.res.counters.inc(&format!("family.{}", spec(*f).family));
        }
        if case.actors > 1 {
            b.res.counters.inc("fault.multi_actor_run");
        }
        for c in &ex.classes {
            if !c.contains(":call:miss:stored:rm0") {
                b.res.distinct.insert(hash_str(c));
            }
        }
        for s in &ex.states {
            b.res.states.insert(*s);
        }
        if b.res.samples.len() < 2 && ex.deviation.is_none() && case.ops.len() < 20 {
            let fns: Vec<String> = case.fns.iter().map(|f| format!("{} #[{}]", spec(*f).fn_name, spec(*f).attrs)).collect();
            b.res.samples.push(serde_json::json!({"run": run, "run_seed": seed, "functions": fns, "case": case}));
        }
        if let Some((i, mut c)) = ex.deviation {
            // controls: a symptom that C13 / C14 own only because an invalidation happened earlier in
            // the run / because several actors took part is re-examined without that ingredient; if
            // it fails the same way the invalidation / the other threads are not the cause
            if c.owned_by(&prop) && prop == "C13" && !c.name.starts_with("inv_") && c.name != "collateral_invalidation" {
                let mut ctl = case.clone();
                ctl.ops.truncate(i + 1);
                ctl.ops.retain(|op| !matches!(op, Op2::InvTag(_) | Op2::InvEvent(_) | Op2::InvDep(_) | Op2::InvName(_) | Op2::InvWith { .. } | Op2::InvAllWith(_)));
                if child_fails(&args, &[ctl], "C13", &format!("~{}", c.name)) {
                    c.owners.retain(|o| o != "C13");
                    b.res.counters.inc("control.fails_without_invalidation_too");
                }
            }
            if c.owned_by(&prop) && prop == "C14" && case.actors > 1 {
                let mut ctl = case.clone();
                ctl.ops.truncate(i + 1);
                ctl.ops.retain(|op| !matches!(op, Op2::Respawn(_)));
                for op in ctl.ops.iter_mut() {
                    if let Op2::Call { a, .. } = op {
                        *a = 0;
                    }
                }
                ctl.actors = 1;
                if child_fails(&args, &[ctl], "C14", &format!("~{}", c.name)) {
                    c.owners.retain(|o| o != "C14");
                    b.res.counters.inc("control.fails_on_one_thread_too");
                }
            }
            if c.owned_by(&prop) {
                let (seq, clause, at) = reproduce_and_minimise(&args, &case, run, &prop, &c, i);
                let last = seq.last().expect("case");
                let sig = signature(last, &clause, at);
                let fns: Vec<String> = last.fns.iter().map(|f| format!("{} #[{}]", spec(*f).fn_name, spec(*f).attrs)).collect();
                let stop = b.violation(&clause, sig, seed, serde_json::json!({"l2_seq": seq, "functions": fns, "original_ops": case.ops.len(), "failed_at": at}));
                if stop {
                    break;
                }
            } else {
                b.res.foreign_deviations += 1;
                b.res.counters.inc(&format!("foreign.{}", c.name));
            }
        }
    }
    b.finish()
}

/// Executes a list of cases in order in this process; the verdict is that of the last one.
fn exec_seq(seq: &[Case2], mut log: Option<&mut Vec<String>>) -> Exec2 {
    let mut last = Exec2::default();
    for (n, c) in seq.iter().enumerate() {
        if let Some(l) = log.as_deref_mut() {
            l.push(format!("--- case {} of {}", n + 1, seq.len()));
        }
        last = exec(c, log.as_deref_mut());
    }
    last
}

/// Evaluates a candidate in a FRESH process (statics of macro-generated caches cannot be reset
/// completely from outside, so a process that has run other cases is not a clean slate).
fn child_fails(args: &BatchArgs, seq: &[Case2], prop: &str, clause: &str) -> bool {
    let dir = args.replay_dir.join("tmp");
    std::fs::create_dir_all(&dir).ok();
    let path = dir.join(format!("cand-{}-{}.json", std::process::id(), prop));
    let rp = Replay {
        property: prop.to_string(),
        clause: clause.to_string(),
        signature: String::new(),
        detail: String::new(),
        engine: "l2".to_string(),
        run_seed: 0,
        case: serde_json::json!({ "l2_seq": seq }),
    };
    std::fs::write(&path, serde_json::to_string(&rp).unwrap()).expect("write candidate");
    let st = std::process::Command::new(std::env::current_exe().expect("exe"))
        .arg("replay")
        .arg(&path)
        .arg("--quiet")
        .stdout(std::process::Stdio::null())
        .stderr(std::process::Stdio::null())
        .status();
    let _ = std::fs::remove_file(&path);
    matches!(st.map(|s| s.code()), Ok(Some(1)))
}

/// Turns a deviation seen in this (possibly no longer pristine) process into a case list that
/// fails the same way in a fresh process, as small as the budget allows.
fn reproduce_and_minimise(args: &BatchArgs, case: &Case2, run: u64, prop: &str, c: &Clause, at: usize) -> (Vec<Case2>, Clause, usize) {
    let clause = c.name.clone();
    // 1. fast path: minimise in-process, confirm in a child
    let min = minimise(case, prop, &clause);
    if child_fails(args, &[min.clone()], prop, &clause) {
        let (c2, j) = exec(&min, None).deviation.unwrap_or((at, c.clone())).swap();
        return (vec![min], c2, j);
    }
    // 2. the original case alone
    if child_fails(args, &[case.clone()], prop, &clause) {
        let mut best = case.clone();
        best.ops.truncate(at + 1);
        let base = best.clone();
        let mut pred = |ops: &[Op2]| {
            let mut t = base.clone();
            t.ops = ops.to_vec();
            child_fails(args, &[t], prop, &clause)
        };
        best.ops = ddmin(base.ops.clone(), &mut pred, Duration::from_secs(25));
        let n = best.ops.len().saturating_sub(1);
        return (vec![best], c.clone(), n);
    }
    // 3. the failure needs state left behind by earlier runs of this batch: replay the prefix
    let mut seq: Vec<Case2> = (args.start..run).map(|r| gen_case2(prop, args.run_seed(r), r)).collect();
    let mut last = case.clone();
    last.ops.truncate(at + 1);
    seq.push(last);
    if !child_fails(args, &seq, prop, &clause) {
        // cannot be reproduced from the seeds in a fresh process: report it unminimised
        return (seq, Clause::new(&clause, &[prop], format!("NOT REPRODUCIBLE IN A FRESH PROCESS: {}", c.detail)), at);
    }
    let tail = seq.pop().unwrap();
    let mut pred = |prefix: &[Case2]| {
        let mut t = prefix.to_vec();
        t.push(tail.clone());
        child_fails(args, &t, prop, &clause)
    };
    let mut prefix = if seq.len() > 1 { ddmin(seq.clone(), &mut pred, Duration::from_secs(40)) } else { seq.clone() };
    if prefix.len() == 1 && pred(&[]) {
        prefix.clear();
    }
    // shrink the operations of the remaining cases (last first)
    let mut all = prefix;
    all.push(tail);
    for idx in (0..all.len()).rev() {
        let base = all.clone();
        let mut pred = |ops: &[Op2]| {
            let mut t = base.clone();
            t[idx].ops = ops.to_vec();
            child_fails(args, &t, prop, &clause)
        };
        let ops = ddmin(base[idx].ops.clone(), &mut pred, Duration::from_secs(15));
        all[idx].ops = ops;
    }
    let n = all.last().map_or(0, |c| c.ops.len().saturating_sub(1));
    (all, c.clone(), n)
}

trait Swap<A, B> {
    fn swap(self) -> (B, A);
}
impl<A, B> Swap<A, B> for (A, B) {
    fn swap(self) -> (B, A) {
        (self.1, self.0)
    }
}

pub fn replay(rp: &Replay, path: &str, quiet: bool) -> i32 {
    let seq: Vec<Case2> = if rp.case.get("l2_seq").is_some() {
        serde_json::from_value(rp.case["l2_seq"].clone()).expect("case list")
    } else {
        vec![serde_json::from_value(rp.case["l2"].clone()).expect("case")]
    };
    let mut log = Vec::new();
    let ex = exec_seq(&seq, if quiet { None } else { Some(&mut log) });
    for l in &log {
        println!("  {l}");
    }
    match ex.deviation {
        Some((i, c)) if rp.clause == "*" || rp.clause.strip_prefix('~') == Some(c.name.as_str()) || (c.name == rp.clause && c.owned_by(&rp.property)) => {
            if !quiet {
                println!("VIOLATION property={} replay={}", rp.property, path);
                println!("  clause={} at operation {i}: {}", c.name, c.detail);
            }
            1
        }
        other => {
            if !quiet {
                println!("NOT-REPRODUCED property={} expected clause {} got {:?}", rp.property, rp.clause, other.map(|x| x.1.name));
            }
            3
        }
    }
}
