fn main() { println!("ok"); }
