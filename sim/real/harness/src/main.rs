#![allow(dead_code, unused_imports, unused_variables)]
mod common;
mod diff;
mod gen1;
mod gen2;
mod l1;
mod l2;
mod run1;
mod run2;
#[path = "../../../shared/corpus.rs"]
mod corpus;
#[path = "../../../shared/vals.rs"]
mod vals;
#[path = "../../../shared/world.rs"]
mod world;
/// In this build `std` is the real one (the scheduled build substitutes shuttle's `Once`).
pub mod sim_std {
    pub use ::std::*;
}

use common::BatchArgs;
use simcore::report::Replay;
use std::collections::BTreeSet;

fn arg(args: &[String], name: &str) -> Option<String> {
    args.iter().position(|a| a == name).and_then(|i| args.get(i + 1)).cloned()
}

fn main() {
    // a panicking cache operation is an observation (C16), not a crash of the simulator
    std::panic::set_hook(Box::new(|_| {}));
    let args: Vec<String> = std::env::args().collect();
    let code = match args.get(1).map(|s| s.as_str()) {
        Some("run") => {
            let known: BTreeSet<String> = match arg(&args, "--known") {
                Some(f) => std::fs::read_to_string(f).unwrap_or_default().lines().map(|l| l.to_string()).collect(),
                None => BTreeSet::new(),
            };
            let ba = BatchArgs {
                prop: arg(&args, "--prop").expect("--prop"),
                engine: arg(&args, "--engine").expect("--engine"),
                seed: arg(&args, "--seed").map_or(1, |s| s.parse().expect("seed")),
                start: arg(&args, "--start").map_or(0, |s| s.parse().expect("start")),
                runs: arg(&args, "--runs").map_or(1000, |s| s.parse().expect("runs")),
                replay_dir: arg(&args, "--replay-dir").unwrap_or_else(|| "/verif/replays".into()).into(),
                known,
                time_limit_s: arg(&args, "--time-limit").map_or(0.0, |s| s.parse().expect("time")),
                log_digests: args.iter().any(|a| a == "--digests"),
            };
            simcore::watchdog::start(ba.prop.clone(), ba.engine.clone(), "C16", ba.replay_dir.clone());
            match ba.engine.as_str() {
                "l1" => run1::run_batch(ba),
                "l2" => run2::run_batch(ba),
                "diff" => diff::run_batch(ba),
                e => {
                    eprintln!("unknown engine {e}");
                    2
                }
            }
        }
        Some("replay") => {
            let path = args.get(2).expect("replay file");
            let rp: Replay = serde_json::from_str(&std::fs::read_to_string(path).expect("read replay")).expect("parse replay");
            match rp.engine.as_str() {
                "l1" => run1::replay(&rp, path),
                "l2" => run2::replay(&rp, path, args.iter().any(|a| a == "--quiet")),
                "diff" => diff::replay(&rp, path, args.iter().any(|a| a == "--quiet")),
                e => {
                    eprintln!("unknown engine {e}");
                    2
                }
            }
        }
        _ => {
            eprintln!("usage: simreal run --prop C04 --engine l1 --seed N --start A --runs B | simreal replay FILE");
            2
        }
    };
    std::process::exit(code);
}
