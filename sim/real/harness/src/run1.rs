//! Batch runner, minimiser and replay for engine SEQ/L1.

use crate::common::*;
use crate::gen1::*;
use crate::l1::*;
use simcore::check::Clause;
use simcore::report::*;
use std::time::Duration;

pub const RULE: &str = "one evaluation = one seeded history (8-60 get/put/advance/clear operations) on a core cache built directly with a seeded configuration; every operation is compared with the reference model. distinct_nontrivial counts distinct (flavour, policy, limit?, ttl?, max_memory?, operation kind, outcome class) tuples whose outcome class is not a plain miss or a store that touches nothing else (i.e. hits, expiries, evictions, re-stores, oversize values, self-evictions)";

fn signature(case: &Case1, c: &Clause) -> String {
    let p = &case.params;
    format!(
        "{}|{:?}|{}|limit={}|ttl={}|mem={}",
        c.name,
        p.flavour,
        p.policy.name(),
        p.limit.is_some(),
        p.ttl.is_some(),
        p.max_memory.is_some()
    )
}

fn nontrivial(class: &str) -> bool {
    !(class == "get:miss" || class == "put:new:fits:rm0")
}

/// Same failure = same clause name, still owned by the property.
fn fails_same(case: &Case1, prop: &str, clause: &str) -> bool {
    match exec(case, None).deviation {
        Some((_, c)) => c.name == clause && c.owned_by(prop),
        None => false,
    }
}

pub fn minimise(case: &Case1, prop: &str, clause: &str) -> Case1 {
    let mut best = case.clone();
    // cut everything after the failing operation
    if let Some((i, _)) = exec(&best, None).deviation {
        best.ops.truncate(i + 1);
    }
    let base = best.clone();
    let mut pred = |ops: &[Op1]| {
        let mut c = base.clone();
        c.ops = ops.to_vec();
        fails_same(&c, prop, clause)
    };
    best.ops = ddmin(base.ops.clone(), &mut pred, Duration::from_secs(20));
    // shrink arguments: smaller sizes, simpler shapes, smaller steps
    let mut changed = true;
    while changed {
        changed = false;
        for i in 0..best.ops.len() {
            let cands: Vec<Op1> = match &best.ops[i] {
                Op1::Put { k, size, shape } => {
                    let mut v = vec![];
                    if *shape != 0 {
                        v.push(Op1::Put { k: *k, size: *size, shape: 0 });
                    }
                    if *size > 0 {
                        v.push(Op1::Put { k: *k, size: 0, shape: *shape });
                        v.push(Op1::Put { k: *k, size: size / 2, shape: *shape });
                    }
                    v
                }
                Op1::Adv(d) if *d != SEC_I && *d != 0 => vec![Op1::Adv(SEC_I), Op1::Adv(d / SEC_I * SEC_I)],
                _ => vec![],
            };
            for c in cands {
                if c == best.ops[i] {
                    continue;
                }
                let mut t = best.clone();
                t.ops[i] = c;
                if fails_same(&t, prop, clause) {
                    best = t;
                    changed = true;
                    break;
                }
            }
        }
    }
    // simpler configuration where the failure does not depend on it
    for f in 0..3 {
        let mut t = best.clone();
        match f {
            0 if t.params.ttl.is_some() => t.params.ttl = None,
            1 if t.params.weight.is_some() => t.params.weight = None,
            2 if t.params.max_memory.is_some() && t.params.limit.is_some() => t.params.max_memory = None,
            _ => continue,
        }
        if fails_same(&t, prop, clause) {
            best = t;
        }
    }
    best
}

const SEC_I: i64 = 1_000_000_000;

pub fn run_batch(args: BatchArgs) -> i32 {
    let mut b = Batch::new(args.clone(), RULE);
    let prop = args.prop.clone();
    for run in args.start..args.start + args.runs {
        if b.out_of_time() {
            break;
        }
        let seed = args.run_seed(run);
        let case = gen_case1(&prop, seed, run);
        simcore::watchdog::begin_case(seed, serde_json::json!({"l1": case}));
        let ex = exec(&case, None);
        simcore::watchdog::end_case();
        b.res.runs += 1;
        b.res.ops += ex.ops_done as u64;
        b.res.sim_ns += ex.sim_ns as i128;
        b.res.counters.merge(&ex.counters);
        b.res.digest = simcore::rng::mix(&[b.res.digest, ex.digest]);
        if args.log_digests {
            println!("DIGEST {run} {:016x}", ex.digest);
        }
        let p = &case.params;
        let cfg = format!("{:?}/{}/{}{}{}", p.flavour, p.policy.name(), p.limit.is_some() as u8, p.ttl.is_some() as u8, p.max_memory.is_some() as u8);
        b.res.counters.inc(&format!("config.{:?}.{}", p.flavour, p.policy.name()));
        if prop == "C16" {
            b.res.states.insert(run % N_CONFIGS);
        } else {
            for s in &ex.states {
                b.res.states.insert(*s);
            }
        }
        for c in &ex.classes {
            if nontrivial(c) {
                b.res.distinct.insert(hash_str(&format!("{cfg}|{c}")));
            }
        }
        if b.res.samples.len() < 3 && ex.deviation.is_none() && ex.counters.get("probe.eviction") > 0 {
            b.res.samples.push(serde_json::json!({"run": run, "run_seed": seed, "case": case}));
        }
        if let Some((i, c)) = ex.deviation {
            if c.owned_by(&prop) {
                let min = minimise(&case, &prop, &c.name);
                let (clause, _) = match exec(&min, None).deviation {
                    Some((_, c2)) => (c2, ()),
                    None => (c.clone(), ()),
                };
                let sig = signature(&min, &clause);
                let stop = b.violation(&clause, sig, seed, serde_json::json!({"l1": min, "original_ops": case.ops.len(), "failed_at": i}));
                if stop {
                    break;
                }
            } else {
                b.res.foreign_deviations += 1;
                b.res.counters.inc(&format!("foreign.{}", c.name));
            }
        }
    }
    b.finish()
}

/// Re-executes a replay file's case; exit 1 + VIOLATION line if it fails the same way, 3 if not.
pub fn replay(rp: &Replay, path: &str) -> i32 {
    let case: Case1 = serde_json::from_value(rp.case["l1"].clone()).expect("case");
    let mut log = Vec::new();
    let ex = exec(&case, Some(&mut log));
    for l in &log {
        println!("  {l}");
    }
    match ex.deviation {
        Some((i, c)) if c.name == rp.clause && c.owned_by(&rp.property) => {
            println!("VIOLATION property={} replay={}", rp.property, path);
            println!("  clause={} at operation {i}: {}", c.name, c.detail);
            1
        }
        other => {
            println!("NOT-REPRODUCED property={} expected clause {} got {:?}", rp.property, rp.clause, other.map(|x| x.1.name));
            3
        }
    }
}
