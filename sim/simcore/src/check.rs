//! Refinement-with-observation: compare what the real cache did with the admissible successors
//! of the reference model and, on a mismatch, name the clause (and the properties owning it).

use crate::model::*;
use serde::{Deserialize, Serialize};
use std::collections::{BTreeMap, BTreeSet};

#[derive(Clone, Debug, Serialize, Deserialize)]
pub struct Clause {
    pub name: String,
    pub owners: Vec<String>,
    pub detail: String,
}

impl Clause {
    pub fn new(name: &str, owners: &[&str], detail: String) -> Self {
        Clause {
            name: name.to_string(),
            owners: owners.iter().map(|s| s.to_string()).collect(),
            detail,
        }
    }
    pub fn owned_by(&self, prop: &str) -> bool {
        self.owners.iter().any(|o| o == prop)
    }
}

/// Observed content of the store after an operation: key -> stamp (None when only the key set
/// is observable, as with macro-generated functions).
pub type StoreObs = BTreeMap<Key, Option<u64>>;

fn matches(m: &Model, obs: &StoreObs) -> bool {
    if m.e.len() != obs.len() {
        return false;
    }
    for (k, e) in &m.e {
        match obs.get(k) {
            None => return false,
            Some(Some(s)) if *s != e.stamp => return false,
            _ => {}
        }
    }
    true
}

fn keyset(obs: &StoreObs) -> BTreeSet<Key> {
    obs.keys().cloned().collect()
}

fn victim_prop(p: Policy) -> &'static str {
    match p {
        Policy::Fifo | Policy::Lru => "C07",
        _ => "C08",
    }
}

fn gone_owners(g: Gone) -> Vec<&'static str> {
    match g {
        Gone::Never => vec!["C01"],
        Gone::Expired => vec!["C06"],
        Gone::EvictedLimit => vec!["C04"],
        Gone::EvictedMem => vec!["C05"],
        Gone::Invalidated => vec!["C12", "C13"],
        Gone::ErrNotCached => vec!["C09"],
        Gone::PredRejected => vec!["C10"],
        Gone::Oversize => vec!["C05"],
    }
}

/// A lookup (L1 `get`): `ret` is the stamp of the returned value, `after` the store afterwards.
pub fn check_get(m: &Model, k: Key, now: i64, ret: Option<u64>, after: Option<&StoreObs>) -> Result<Model, Clause> {
    let succ = m.lookup(k, now);
    for (s, look) in &succ {
        let ok_ret = match (look, ret) {
            (Look::Hit(a), Some(b)) => *a == b,
            (Look::Miss, None) | (Look::Expired, None) => true,
            _ => false,
        };
        if ok_ret && after.map_or(true, |a| matches(s, a)) {
            return Ok(s.clone());
        }
    }
    Err(diagnose_lookup(m, k, now, ret, after, &succ))
}

fn diagnose_lookup(
    m: &Model,
    k: Key,
    now: i64,
    ret: Option<u64>,
    after: Option<&StoreObs>,
    succ: &[(Model, Look)],
) -> Clause {
    let p = &m.p;
    let can_hit = succ.iter().any(|(_, l)| matches!(l, Look::Hit(_)));
    let can_miss = succ.iter().any(|(_, l)| !matches!(l, Look::Hit(_)));
    match ret {
        Some(s) => {
            if !can_hit {
                return match m.e.get(&k) {
                    None => {
                        let g = m.why_gone(k);
                        Clause::new(
                            "phantom_hit",
                            &gone_owners(g),
                            format!("lookup of key {k} returned stamp {s} but no entry should exist ({g:?}) [{}]", p.short()),
                        )
                    }
                    Some(e) => Clause::new(
                        "served_expired",
                        &["C06"],
                        format!(
                            "lookup of key {k} returned stamp {s} although its age {} ns >= ttl {:?} [{}]",
                            now - e.birth_ns,
                            p.ttl,
                            p.short()
                        ),
                    ),
                };
            }
            let exp = m.e.get(&k).map(|e| e.stamp);
            if exp != Some(s) {
                return Clause::new(
                    "stale_value",
                    &["C01"],
                    format!("lookup of key {k} returned stamp {s}, the current value has stamp {exp:?} [{}]", p.short()),
                );
            }
        }
        None => {
            if !can_miss {
                let mut owners = vec!["C03"];
                if p.ttl.is_some() {
                    owners.push("C06");
                }
                if p.limit.is_some() {
                    owners.push("C04");
                }
                return Clause::new(
                    "lost_entry",
                    &owners,
                    format!("lookup of key {k} missed although a live entry must be served [{}]", p.short()),
                );
            }
        }
    }
    // hit/miss is admissible; the store content afterwards is not
    let after = after.expect("store observation");
    if ret.is_none() && m.e.contains_key(&k) && after.contains_key(&k) {
        return Clause::new(
            "expired_not_purged",
            &["C06"],
            format!("expired key {k} is still stored after the lookup [{}]", p.short()),
        );
    }
    let mut owners = vec!["C03"];
    if p.ttl.is_some() {
        owners.push("C06");
    }
    if p.limit.is_some() {
        owners.push("C04");
    }
    Clause::new(
        "lookup_changed_store",
        &owners,
        format!(
            "lookup of key {k} changed the store: before {:?} after {:?} [{}]",
            m.keys(),
            keyset(after),
            p.short()
        ),
    )
}

/// A store (L1 `insert` / `insert_with_memory`).
pub fn check_put(m: &Model, k: Key, stamp: u64, fp: usize, now: i64, after: &StoreObs) -> Result<Model, Clause> {
    let succ = m.store(k, stamp, fp, now);
    for s in &succ {
        if matches(s, after) {
            return Ok(s.clone());
        }
    }
    Err(diagnose_store(m, k, stamp, fp, now, &succ, after, &[]))
}

/// `ctx` adds owners for the clauses that mean "the new value did not replace / was not kept"
/// (C09 for Result functions, C10 with cache_if, C11 on a refresh).
#[allow(clippy::too_many_arguments)]
pub fn diagnose_store(
    m: &Model,
    k: Key,
    stamp: u64,
    fp: usize,
    now: i64,
    succ: &[Model],
    after: &StoreObs,
    ctx: &[&'static str],
) -> Clause {
    let p = &m.p;
    let before = m.keys();
    let aft = keyset(after);
    let pol = victim_prop(p.policy);
    // 1. keys from nowhere
    let extra: Vec<Key> = aft.iter().cloned().filter(|x| *x != k && !before.contains(x)).collect();
    if !extra.is_empty() {
        return Clause::new(
            "phantom_key",
            &["C01"],
            format!("store of key {k} made keys {extra:?} appear [{}]", p.short()),
        );
    }
    // 1b. the old value of k left in place (observable when stamps are)
    let oversize = p.max_memory.map_or(false, |mm| fp > mm);
    if let Some(Some(s)) = after.get(&k) {
        if *s != stamp && !oversize {
            let mut owners = vec!["C01"];
            owners.extend_from_slice(ctx);
            return Clause::new(
                "stale_overwrite",
                &owners,
                format!("store of key {k} (stamp {stamp}) left the old value (stamp {s}) in place [{}]", p.short()),
            );
        }
    }
    // 2. bounds
    if let Some(n) = p.limit {
        if aft.len() > n {
            return Clause::new(
                "limit_exceeded",
                &["C04"],
                format!("{} entries after storing key {k}, limit {n}: {:?} [{}]", aft.len(), aft, p.short()),
            );
        }
    }
    let removed: BTreeSet<Key> = before.iter().cloned().filter(|x| *x != k && !aft.contains(x)).collect();
    if let Some(mm) = p.max_memory {
        // footprint of what is stored now: known entries keep their fp, k has the new fp
        let total: usize = aft
            .iter()
            .map(|x| if *x == k { fp } else { m.e.get(x).map_or(0, |e| e.fp) })
            .sum();
        if oversize {
            let new_kept = after.get(&k).map_or(false, |s| match s {
                Some(s) => *s == stamp,
                None => !m.e.contains_key(&k),
            });
            if new_kept {
                return Clause::new(
                    "oversize_cached",
                    &["C05"],
                    format!("value of {fp} bytes for key {k} was cached although max_memory is {mm} [{}]", p.short()),
                );
            }
            if !removed.is_empty() {
                return Clause::new(
                    "oversize_displaced",
                    &["C05"],
                    format!("oversize value ({fp} > {mm}) for key {k} displaced {removed:?} [{}]", p.short()),
                );
            }
        } else if total > mm {
            return Clause::new(
                "memory_exceeded",
                &["C05"],
                format!("{total} bytes cached after storing key {k} ({fp} bytes), max_memory {mm}: {:?} [{}]", aft, p.short()),
            );
        }
    }
    // 3. the new value itself
    let newcomer_may_go = succ.iter().any(|s| !s.e.contains_key(&k));
    match after.get(&k) {
        None if !newcomer_may_go => {
            let mut owners = vec![];
            if p.max_memory.is_some() {
                // with a memory limit the only legitimate reason to refuse a value is its size:
                // a refusal of a value that fits is a memory-limit decision
                owners.push("C05");
            } else {
                owners.push("C03");
                if p.limit.is_some() {
                    // "the cache holds min(N, number of distinct keys stored) entries"
                    owners.push("C04");
                }
            }
            owners.extend_from_slice(ctx);
            return Clause::new(
                "not_stored",
                &owners,
                format!("key {k} is not cached after its store [{}]", p.short()),
            );
        }
        _ => {}
    }
    // 4. evictions
    let min_removed = succ
        .iter()
        .map(|s| before.iter().filter(|x| **x != k && !s.e.contains_key(x)).count())
        .min()
        .unwrap_or(0);
    let max_removed = succ
        .iter()
        .map(|s| before.iter().filter(|x| **x != k && !s.e.contains_key(x)).count())
        .max()
        .unwrap_or(0);
    let mem_pressure = p
        .max_memory
        .map_or(false, |mm| m.total_fp() - m.e.get(&k).map_or(0, |e| e.fp) + fp > mm);
    if max_removed == 0 && !removed.is_empty() {
        // who can be blamed for an eviction nobody needed: the entry-limit test when the cache is
        // at its limit or when bookkeeping leftovers (expiry, invalidation) may inflate the count;
        // the memory accounting whenever a memory limit is configured
        let mut universe = before.clone();
        universe.insert(k);
        let near_limit = p.limit.map_or(false, |n| universe.len() + 1 >= n);
        let leftovers = m.gone.values().any(|g| matches!(g, Gone::Expired | Gone::Invalidated));
        let mut owners = vec![];
        if p.limit.is_some() && (p.max_memory.is_none() || near_limit || leftovers) {
            owners.push("C04");
        }
        if p.max_memory.is_some() {
            owners.push("C05");
        }
        if owners.is_empty() {
            owners.push("C03");
        }
        if m.gone.values().any(|g| *g == Gone::Expired) && (p.max_memory.is_none() || near_limit) {
            // an expired entry that was purged must no longer occupy capacity
            owners.push("C06");
        }
        return Clause::new(
            "needless_eviction",
            &owners,
            format!(
                "store of key {k} removed {removed:?} although nothing overflowed: before {:?} [{}]",
                before,
                p.short()
            ),
        );
    }
    if !mem_pressure {
        // pure entry-limit overflow: exactly one victim (possibly the newcomer for sync flavours)
        let mut universe = before.clone();
        universe.insert(k);
        let gone_total = universe.len() - aft.len();
        let exp_total = succ.first().map_or(0, |s| universe.len() - s.e.len());
        if gone_total != exp_total {
            return Clause::new(
                "victim_count",
                &["C04"],
                format!(
                    "store of key {k} removed {gone_total} entries ({removed:?}), exactly {exp_total} expected: before {:?} after {:?} [{}]",
                    before, aft, p.short()
                ),
            );
        }
        return Clause::new(
            "wrong_victim",
            &[pol],
            format!(
                "store of key {k} evicted {removed:?}; admissible: {:?}; before {:?} [{}]",
                succ.iter()
                    .map(|s| before.iter().cloned().filter(|x| !s.e.contains_key(x)).collect::<Vec<_>>())
                    .collect::<Vec<_>>(),
                before,
                p.short()
            ),
        );
    }
    // memory pressure (possibly followed by an entry-limit eviction). The victims are evicted one
    // at a time until the total fits, so "too many" can only be blamed on the memory accounting
    // when EVERY removed entry could have stayed (whichever was last, it was not needed); a
    // different number of evictions that is explained by choosing other victims is a wrong victim.
    let total_after: usize = aft.iter().map(|x| if *x == k { fp } else { m.e.get(x).map_or(0, |e| e.fp) }).sum();
    let mm = p.max_memory.unwrap_or(usize::MAX);
    let all_needless = !removed.is_empty() && removed.iter().all(|v| total_after + m.e.get(v).map_or(0, |e| e.fp) <= mm);
    if removed.len() > max_removed && all_needless {
        return Clause::new(
            "mem_overevict",
            &["C05"],
            format!(
                "store of key {k} ({fp} bytes) removed {removed:?} although every one of them could have stayed ({total_after} bytes remain, max_memory {mm}): before {:?} [{}]",
                before, p.short()
            ),
        );
    }
    let _ = min_removed;
    let _ = now;
    Clause::new(
        "wrong_victim",
        &[pol],
        format!(
            "store of key {k} ({fp} bytes) under memory pressure evicted {removed:?}; admissible: {:?}; before {:?} [{}]",
            succ.iter()
                .map(|s| before.iter().cloned().filter(|x| !s.e.contains_key(x)).collect::<Vec<_>>())
                .collect::<Vec<_>>(),
            before,
            p.short()
        ),
    )
}

// ------------------------------------------------------------------------------------------
// L2: one call of a macro-generated function

#[derive(Clone, Debug, Serialize, Deserialize, PartialEq)]
pub struct FnCfg {
    pub params: Params,
    pub is_result: bool,
    pub has_inv_on: bool,
    pub has_cache_if: bool,
}

/// What the simulator scripted for this call (used only if the body / predicates run).
#[derive(Clone, Debug, Serialize, Deserialize, PartialEq)]
pub struct CallPlan {
    pub k: Key,
    pub err: bool,
    pub dur_ns: i64,
    pub inv_verdict: bool,
    pub cif_verdict: bool,
}

#[derive(Clone, Debug, Default, Serialize, Deserialize, PartialEq)]
pub struct CallObs {
    /// stamp carried by the returned value
    pub ret_stamp: u64,
    pub ret_err: bool,
    /// stamp of the body execution performed by this call, if the body ran
    pub exec_stamp: Option<u64>,
    /// harness-computed footprint of the returned value
    pub fp: usize,
    /// stamps the invalidate_on check was consulted with (in order)
    pub inv_seen: Vec<u64>,
    /// stamps the cache_if predicate was consulted with (in order)
    pub cif_seen: Vec<u64>,
    /// key set after the call (None for thread scope)
    pub keys_after: Option<BTreeSet<Key>>,
    /// (hits, misses) after the call
    pub stats: Option<(u64, u64)>,
}

/// `now0` is the clock at the lookup; the body takes `plan.dur_ns`.
pub fn check_call(m: &Model, cfg: &FnCfg, plan: &CallPlan, obs: &CallObs, now0: i64) -> Result<Model, Clause> {
    let (m1, hit_stamp) = check_call_begin(m, cfg, plan, obs, now0)?;
    check_call_end(m, &m1, cfg, plan, obs, hit_stamp, now0 + plan.dur_ns, now0)
}

/// First half of a call: the lookup and the invalidate_on consultation. Returns the model after
/// the lookup and, if the lookup was a hit, the stamp it found. `obs.exec_stamp` says whether the
/// body started; `obs.keys_after` / `obs.stats` are NOT consulted here.
pub fn check_call_begin(m: &Model, cfg: &FnCfg, plan: &CallPlan, obs: &CallObs, now0: i64) -> Result<(Model, Option<u64>), Clause> {
    let k = plan.k;
    let p = &m.p;
    let executed = obs.exec_stamp.is_some();
    let looks = m.lookup(k, now0);
    // -- phase 1: pick the lookup outcome consistent with the observation
    let mut chosen: Option<(Model, Look)> = None;
    let mut reason: Option<Clause> = None;
    for (m1, look) in &looks {
        match look {
            Look::Hit(s) => {
                let stale = cfg.has_inv_on && plan.inv_verdict;
                if !stale {
                    if !executed {
                        if obs.ret_stamp == *s {
                            chosen = Some((m1.clone(), *look));
                            break;
                        }
                        reason.get_or_insert(Clause::new(
                            "stale_value",
                            if cfg.has_inv_on { &["C01", "C11"] } else { &["C01"] },
                            format!("call for key {k} was served stamp {}, the cached value has stamp {s} [{}]", obs.ret_stamp, p.short()),
                        ));
                    } else {
                        let mut owners = vec!["C03"];
                        if p.ttl.is_some() {
                            owners.push("C06");
                        }
                        if cfg.has_inv_on {
                            owners.push("C11");
                        }
                        reason.get_or_insert(Clause::new(
                            "needless_execution",
                            &owners,
                            format!("call for key {k} ran the body although a live entry (stamp {s}) must be served [{}]", p.short()),
                        ));
                    }
                } else if executed {
                    chosen = Some((m1.clone(), *look));
                    break;
                } else {
                    reason.get_or_insert(Clause::new(
                        "stale_served",
                        &["C11"],
                        format!("call for key {k} was served stamp {} although invalidate_on declared it stale [{}]", obs.ret_stamp, p.short()),
                    ));
                }
            }
            Look::Miss | Look::Expired => {
                if executed {
                    chosen = Some((m1.clone(), *look));
                    break;
                }
                let c = match m.e.get(&k) {
                    None => {
                        let g = m.why_gone(k);
                        Clause::new(
                            "phantom_hit",
                            &gone_owners(g),
                            format!("call for key {k} was served stamp {} without running the body, but nothing should be cached ({g:?}) [{}]", obs.ret_stamp, p.short()),
                        )
                    }
                    Some(e) => Clause::new(
                        "served_expired",
                        &["C06"],
                        format!("call for key {k} was served stamp {} although the entry's age {} ns >= ttl {:?} [{}]", obs.ret_stamp, now0 - e.birth_ns, p.ttl, p.short()),
                    ),
                };
                reason.get_or_insert(c);
            }
        }
    }
    // several lookup outcomes can explain "the body ran" (async ttl window: live-but-stale or
    // expired); prefer the one that also explains the invalidate_on consultations
    if executed && cfg.has_inv_on {
        for (m1, look) in &looks {
            let exp: Vec<u64> = match look {
                Look::Hit(s) if plan.inv_verdict => vec![*s],
                Look::Hit(_) => continue,
                _ => vec![],
            };
            if exp == obs.inv_seen {
                chosen = Some((m1.clone(), *look));
                break;
            }
        }
    }
    let (m1, look) = match chosen {
        Some(x) => x,
        None => return Err(reason.expect("a reason")),
    };
    // -- phase 2: predicate protocol
    let hit_stamp = if let Look::Hit(s) = look { Some(s) } else { None };
    let exp_inv: Vec<u64> = match (cfg.has_inv_on, hit_stamp) {
        (true, Some(s)) => vec![s],
        _ => vec![],
    };
    if obs.inv_seen != exp_inv {
        return Err(Clause::new(
            "invalidate_on_protocol",
            &["C11"],
            format!("invalidate_on consulted with stamps {:?}, expected {:?} for key {k} [{}]", obs.inv_seen, exp_inv, p.short()),
        ));
    }
    Ok((m1, hit_stamp))
}

/// Second half of a call: what it stored, the cache_if consultation and the statistics.
/// `m_before` is the model before the call's lookup (for diagnosis only), `m1` the model the
/// store applies to (the state after the lookup, possibly evolved by other operations while the
/// call was suspended), `now1` the clock at the store.
#[allow(clippy::too_many_arguments)]
pub fn check_call_end(m_before: &Model, m1: &Model, cfg: &FnCfg, plan: &CallPlan, obs: &CallObs, hit_stamp: Option<u64>, now1: i64, now0: i64) -> Result<Model, Clause> {
    let m = m_before;
    let m1 = m1.clone();
    let k = plan.k;
    let p = &m.p;
    let looks = m.lookup(k, now0);
    let exp_cif: Vec<u64> = match (cfg.has_cache_if, obs.exec_stamp) {
        (true, Some(s)) => vec![s],
        _ => vec![],
    };
    if obs.cif_seen != exp_cif {
        return Err(Clause::new(
            "cache_if_protocol",
            &["C10"],
            format!("cache_if consulted with stamps {:?}, expected {:?} for key {k} [{}]", obs.cif_seen, exp_cif, p.short()),
        ));
    }
    // -- phase 3: what the call stored
    let mut result = m1.clone();
    if let Some(stamp) = obs.exec_stamp {
        if obs.ret_stamp != stamp || obs.ret_err != plan.err {
            return Err(Clause::new(
                "wrong_value",
                &["C01"],
                format!("call for key {k} executed the body (stamp {stamp}, err={}) but returned stamp {} err={}", plan.err, obs.ret_stamp, obs.ret_err),
            ));
        }
        let mut keep = if cfg.has_cache_if { plan.cif_verdict } else { true };
        let mut why_not = Gone::PredRejected;
        if cfg.is_result {
            match p.flavour {
                Flavour::Async => {
                    if !cfg.has_cache_if && plan.err {
                        keep = false;
                        why_not = Gone::ErrNotCached;
                    }
                }
                _ => {
                    if plan.err {
                        keep = false;
                        why_not = Gone::ErrNotCached;
                    }
                }
            }
        }
        let mut ctx: Vec<&'static str> = vec![];
        if cfg.is_result && !cfg.has_cache_if {
            ctx.push("C09");
        }
        if cfg.has_cache_if {
            ctx.push("C10");
        }
        if hit_stamp.is_some() {
            ctx.push("C11");
        }
        if keep {
            let succ = m1.store(k, stamp, obs.fp, now1);
            match &obs.keys_after {
                Some(ka) => {
                    let after: StoreObs = ka.iter().map(|x| (*x, None)).collect();
                    match succ.iter().find(|s| matches(s, &after)) {
                        Some(s) => result = s.clone(),
                        None => return Err(diagnose_store(&m1, k, stamp, obs.fp, now1, &succ, &after, &ctx)),
                    }
                }
                None => {
                    // unobservable store: only unambiguous configurations are run this way
                    result = succ.into_iter().next().expect("successor");
                }
            }
        } else {
            // nothing may be stored; a stale entry (if any) stays as it is
            if !m1.e.contains_key(&k) {
                result.gone.insert(k, why_not);
            }
            if let Some(ka) = &obs.keys_after {
                if *ka != m1.keys() {
                    let (name, owners): (&str, Vec<&str>) = if ka.contains(&k) && !m1.e.contains_key(&k) {
                        match why_not {
                            Gone::ErrNotCached => ("err_cached", vec!["C09"]),
                            _ => ("rejected_cached", vec!["C10"]),
                        }
                    } else {
                        ("unstored_call_changed_store", ctx.clone())
                    };
                    return Err(Clause::new(
                        name,
                        &owners,
                        format!("call for key {k} must not store (err={}, cache_if={:?}); keys before {:?} after {:?} [{}]", plan.err, cfg.has_cache_if.then_some(plan.cif_verdict), m1.keys(), ka, p.short()),
                    ));
                }
            }
        }
    } else if let Some(ka) = &obs.keys_after {
        if *ka != m1.keys() {
            let after: StoreObs = ka.iter().map(|x| (*x, None)).collect();
            return Err(diagnose_lookup(m, k, now0, Some(obs.ret_stamp), Some(&after), &looks));
        }
    }
    // -- phase 4: statistics
    if let Some((h, mi)) = obs.stats {
        if (h, mi) != (result.stat_hits, result.stat_misses) {
            return Err(Clause::new(
                "stats_mismatch",
                &["C15"],
                format!("statistics after call for key {k}: observed hits={h} misses={mi}, expected hits={} misses={} [{}]", result.stat_hits, result.stat_misses, p.short()),
            ));
        }
    }
    Ok(result)
}
