//! Executable nondeterministic specification of one cache (DESIGN.md appendix A).
//!
//! Written from the property statements and the README, not from the implementation. Every
//! operation returns the *set* of admissible successor states; the checker keeps the one that
//! agrees with what was observed, and an empty match is a violation.

use serde::{Deserialize, Serialize};
use std::collections::{BTreeMap, BTreeSet};

pub type Key = u8;
pub const SEC: i64 = 1_000_000_000;

#[derive(Clone, Copy, Debug, PartialEq, Eq, Hash, PartialOrd, Ord, Serialize, Deserialize)]
pub enum Flavour {
    Sync,
    Thread,
    Async,
}

#[derive(Clone, Copy, Debug, PartialEq, Eq, Hash, PartialOrd, Ord, Serialize, Deserialize)]
pub enum Policy {
    Fifo,
    Lru,
    Lfu,
    Arc,
    Random,
    Tlru,
}

impl Policy {
    pub const ALL: [Policy; 6] = [
        Policy::Fifo,
        Policy::Lru,
        Policy::Lfu,
        Policy::Arc,
        Policy::Random,
        Policy::Tlru,
    ];
    pub fn name(&self) -> &'static str {
        match self {
            Policy::Fifo => "fifo",
            Policy::Lru => "lru",
            Policy::Lfu => "lfu",
            Policy::Arc => "arc",
            Policy::Random => "random",
            Policy::Tlru => "tlru",
        }
    }
    pub fn counts_hits(&self) -> bool {
        matches!(self, Policy::Lfu | Policy::Arc | Policy::Tlru)
    }
    pub fn tracks_recency(&self) -> bool {
        matches!(self, Policy::Lru | Policy::Arc | Policy::Tlru)
    }
}

#[derive(Clone, Debug, PartialEq, Serialize, Deserialize)]
pub struct Params {
    pub flavour: Flavour,
    pub policy: Policy,
    pub limit: Option<usize>,
    pub ttl: Option<u64>,
    pub max_memory: Option<usize>,
    pub weight: Option<f64>,
}

impl Params {
    pub fn plain(&self) -> bool {
        self.limit.is_none() && self.ttl.is_none() && self.max_memory.is_none()
    }
    pub fn short(&self) -> String {
        format!(
            "{:?}/{}/N={:?}/T={:?}/M={:?}/w={:?}",
            self.flavour,
            self.policy.name(),
            self.limit,
            self.ttl,
            self.max_memory,
            self.weight
        )
    }
}

#[derive(Clone, Debug, PartialEq)]
pub struct Entry {
    pub stamp: u64,
    pub birth_ns: i64,
    pub hits: u64,
    pub stored_seq: u64,
    pub used_seq: u64,
    pub fp: usize,
}

/// Why a key is currently not cached (used to attribute a hit that should not have happened).
#[derive(Clone, Copy, Debug, PartialEq, Eq, Serialize, Deserialize)]
pub enum Gone {
    Never,
    Expired,
    EvictedLimit,
    EvictedMem,
    Invalidated,
    ErrNotCached,
    PredRejected,
    Oversize,
}

#[derive(Clone, Copy, Debug, PartialEq, Eq)]
pub enum Exp {
    No,
    Yes,
    Either,
}

#[derive(Clone, Copy, Debug, PartialEq, Eq)]
pub enum Look {
    Miss,
    Expired,
    Hit(u64),
}

#[derive(Clone, Debug, PartialEq)]
pub struct Model {
    pub p: Params,
    pub e: BTreeMap<Key, Entry>,
    pub seq: u64,
    pub stat_hits: u64,
    pub stat_misses: u64,
    pub gone: BTreeMap<Key, Gone>,
}

impl Model {
    pub fn new(p: Params) -> Self {
        Model {
            p,
            e: BTreeMap::new(),
            seq: 0,
            stat_hits: 0,
            stat_misses: 0,
            gone: BTreeMap::new(),
        }
    }

    pub fn keys(&self) -> BTreeSet<Key> {
        self.e.keys().cloned().collect()
    }

    pub fn total_fp(&self) -> usize {
        self.e.values().map(|e| e.fp).sum()
    }

    pub fn why_gone(&self, k: Key) -> Gone {
        *self.gone.get(&k).unwrap_or(&Gone::Never)
    }

    pub fn expired(&self, e: &Entry, now: i64) -> Exp {
        let t = match self.p.ttl {
            None => return Exp::No,
            Some(t) => t as i64,
        };
        let age = now - e.birth_ns;
        match self.p.flavour {
            Flavour::Sync | Flavour::Thread => {
                // whole elapsed seconds >= ttl ; a monotonic clock never goes back
                if age.max(0) / SEC >= t {
                    Exp::Yes
                } else {
                    Exp::No
                }
            }
            Flavour::Async => {
                if age >= t * SEC {
                    Exp::Yes
                } else if age < (t - 1) * SEC {
                    Exp::No
                } else {
                    Exp::Either
                }
            }
        }
    }

    fn touch(&mut self, k: Key) {
        let pol = self.p.policy;
        let next = self.seq + 1;
        if let Some(e) = self.e.get_mut(&k) {
            if pol.counts_hits() {
                e.hits += 1;
            }
            if pol.tracks_recency() {
                e.used_seq = next;
                self.seq = next;
            }
        }
    }

    /// One lookup: all admissible (successor, outcome) pairs.
    pub fn lookup(&self, k: Key, now: i64) -> Vec<(Model, Look)> {
        let mut out = Vec::new();
        match self.e.get(&k) {
            None => {
                let mut m = self.clone();
                m.stat_misses += 1;
                out.push((m, Look::Miss));
            }
            Some(e) => {
                let x = self.expired(e, now);
                if x != Exp::Yes {
                    let mut m = self.clone();
                    m.stat_hits += 1;
                    let s = e.stamp;
                    m.touch(k);
                    out.push((m, Look::Hit(s)));
                }
                if x != Exp::No {
                    let mut m = self.clone();
                    m.stat_misses += 1;
                    m.e.remove(&k);
                    m.gone.insert(k, Gone::Expired);
                    out.push((m, Look::Expired));
                }
            }
        }
        out
    }

    fn score(&self, e: &Entry, rank: usize, now: i64) -> f64 {
        let hits = e.hits as f64;
        match self.p.policy {
            Policy::Arc => hits * rank as f64,
            Policy::Tlru => {
                let w = self.p.weight.unwrap_or(1.0);
                let fc = if e.hits == 0 { 0.0 } else { hits.powf(w) };
                let agefrac = match self.p.ttl {
                    None => 1.0,
                    Some(t) => {
                        let age = (now - e.birth_ns).max(0) as f64 / SEC as f64;
                        (1.0 - age / t as f64).clamp(0.0, 1.0)
                    }
                };
                fc * rank as f64 * agefrac
            }
            _ => 0.0,
        }
    }

    /// The set of admissible victims among `competitors` (keys of `self.e`).
    pub fn victims(&self, competitors: &[Key], now: i64) -> Vec<Key> {
        if competitors.is_empty() {
            return vec![];
        }
        let ent = |k: &Key| self.e.get(k).expect("competitor is an entry");
        match self.p.policy {
            Policy::Fifo => {
                let m = competitors.iter().map(|k| ent(k).stored_seq).min().unwrap();
                competitors.iter().cloned().filter(|k| ent(k).stored_seq == m).collect()
            }
            Policy::Lru => {
                let m = competitors.iter().map(|k| ent(k).used_seq).min().unwrap();
                competitors.iter().cloned().filter(|k| ent(k).used_seq == m).collect()
            }
            Policy::Lfu => {
                let m = competitors.iter().map(|k| ent(k).hits).min().unwrap();
                competitors.iter().cloned().filter(|k| ent(k).hits == m).collect()
            }
            Policy::Random => competitors.to_vec(),
            Policy::Arc | Policy::Tlru => {
                let scores: Vec<(Key, f64)> = competitors
                    .iter()
                    .map(|k| {
                        let e = ent(k);
                        let rank = 1 + competitors
                            .iter()
                            .filter(|c| ent(c).used_seq < e.used_seq)
                            .count();
                        (*k, self.score(e, rank, now))
                    })
                    .collect();
                let m = scores.iter().map(|x| x.1).fold(f64::INFINITY, f64::min);
                let tol = m.abs() * 1e-9 + 1e-12;
                scores.into_iter().filter(|x| x.1 <= m + tol).map(|x| x.0).collect()
            }
        }
    }

    fn fresh(&mut self, k: Key, stamp: u64, fp: usize, now: i64) {
        self.seq += 1;
        let s = self.seq;
        self.e.insert(
            k,
            Entry { stamp, birth_ns: now, hits: 0, stored_seq: s, used_seq: s, fp },
        );
        self.gone.remove(&k);
    }

    fn evict_one(states: Vec<Model>, now: i64, why: Gone, need: &dyn Fn(&Model) -> bool) -> Vec<Model> {
        // For every state that needs an eviction, branch over the admissible victims.
        let mut out: Vec<Model> = Vec::new();
        for s in states {
            if !need(&s) || s.e.is_empty() {
                push_dedup(&mut out, s);
                continue;
            }
            let comp: Vec<Key> = s.e.keys().cloned().collect();
            for v in s.victims(&comp, now) {
                let mut t = s.clone();
                t.e.remove(&v);
                t.gone.insert(v, why);
                push_dedup(&mut out, t);
            }
        }
        out
    }

    /// One store of `k`: all admissible successor states.
    pub fn store(&self, k: Key, stamp: u64, fp: usize, now: i64) -> Vec<Model> {
        let mut m = self.clone();
        let old = m.e.remove(&k);
        if let Some(mm) = self.p.max_memory {
            if fp > mm {
                // not cached, displaces nothing else; the same key's previous value may go
                m.gone.insert(k, Gone::Oversize);
                let mut out = vec![m];
                if old.is_some() {
                    out.push(self.clone());
                }
                return out;
            }
        }
        let mm = self.p.max_memory;
        let nn = self.p.limit;
        match self.p.flavour {
            Flavour::Sync | Flavour::Thread => {
                m.fresh(k, stamp, fp, now);
                let mut states = vec![m];
                if let Some(mm) = mm {
                    loop {
                        if states.iter().all(|s| s.total_fp() <= mm) {
                            break;
                        }
                        states = Self::evict_one(states, now, Gone::EvictedMem, &|s| s.total_fp() > mm);
                    }
                }
                if let Some(nn) = nn {
                    states = Self::evict_one(states, now, Gone::EvictedLimit, &|s| s.e.len() > nn);
                }
                states
            }
            Flavour::Async => {
                let mut states = vec![m];
                if let Some(mm) = mm {
                    loop {
                        if states.iter().all(|s| s.total_fp() + fp <= mm || s.e.is_empty()) {
                            break;
                        }
                        states = Self::evict_one(states, now, Gone::EvictedMem, &|s| {
                            s.total_fp() + fp > mm
                        });
                    }
                }
                if let Some(nn) = nn {
                    states = Self::evict_one(states, now, Gone::EvictedLimit, &|s| s.e.len() >= nn);
                }
                let mut out = Vec::new();
                for mut s in states {
                    s.fresh(k, stamp, fp, now);
                    push_dedup(&mut out, s);
                }
                out
            }
        }
    }

    /// Removes every key for which `pred` holds (invalidation).
    pub fn invalidate(&mut self, pred: &dyn Fn(Key) -> bool) -> usize {
        let ks: Vec<Key> = self.e.keys().cloned().filter(|k| pred(*k)).collect();
        for k in &ks {
            self.e.remove(k);
            self.gone.insert(*k, Gone::Invalidated);
        }
        ks.len()
    }

    pub fn clear(&mut self) -> usize {
        self.invalidate(&|_| true)
    }
}

fn push_dedup(out: &mut Vec<Model>, m: Model) {
    if !out.iter().any(|x| x.e == m.e) {
        out.push(m);
    }
}
