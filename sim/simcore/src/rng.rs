//! Private PRNG (splitmix64 seeding + xoshiro256**). No external crate, so one seed means the
//! same execution forever.

#[derive(Clone, Debug)]
pub struct Rng {
    s: [u64; 4],
}

pub fn splitmix64(x: &mut u64) -> u64 {
    *x = x.wrapping_add(0x9E37_79B9_7F4A_7C15);
    let mut z = *x;
    z = (z ^ (z >> 30)).wrapping_mul(0xBF58_476D_1CE4_E5B9);
    z = (z ^ (z >> 27)).wrapping_mul(0x94D0_49BB_1331_11EB);
    z ^ (z >> 31)
}

/// Stateless mixing of several integers into one (for deriving sub-seeds).
pub fn mix(parts: &[u64]) -> u64 {
    let mut h: u64 = 0x243F_6A88_85A3_08D3;
    for p in parts {
        h ^= *p;
        h = splitmix64(&mut h);
    }
    h
}

impl Rng {
    pub fn new(seed: u64) -> Self {
        let mut x = seed;
        let s = [
            splitmix64(&mut x),
            splitmix64(&mut x),
            splitmix64(&mut x),
            splitmix64(&mut x),
        ];
        Rng { s }
    }

    pub fn next_u64(&mut self) -> u64 {
        let result = self.s[1].wrapping_mul(5).rotate_left(7).wrapping_mul(9);
        let t = self.s[1] << 17;
        self.s[2] ^= self.s[0];
        self.s[3] ^= self.s[1];
        self.s[1] ^= self.s[2];
        self.s[0] ^= self.s[3];
        self.s[2] ^= t;
        self.s[3] = self.s[3].rotate_left(45);
        result
    }

    /// Uniform in `0..n` (n > 0).
    pub fn below(&mut self, n: u64) -> u64 {
        debug_assert!(n > 0);
        // Lemire-style rejection is unnecessary at these sizes; modulo bias is < 2^-50.
        self.next_u64() % n
    }

    pub fn range(&mut self, lo: u64, hi_incl: u64) -> u64 {
        lo + self.below(hi_incl - lo + 1)
    }

    pub fn chance(&mut self, num: u64, den: u64) -> bool {
        self.below(den) < num
    }

    pub fn pick<'a, T>(&mut self, xs: &'a [T]) -> &'a T {
        &xs[self.below(xs.len() as u64) as usize]
    }

    /// Weighted index choice; weights need not be normalised, at least one must be > 0.
    pub fn weighted(&mut self, w: &[u32]) -> usize {
        let total: u64 = w.iter().map(|x| *x as u64).sum();
        let mut r = self.below(total.max(1));
        for (i, x) in w.iter().enumerate() {
            if r < *x as u64 {
                return i;
            }
            r -= *x as u64;
        }
        w.len() - 1
    }

    pub fn shuffle<T>(&mut self, xs: &mut [T]) {
        for i in (1..xs.len()).rev() {
            let j = self.below(i as u64 + 1) as usize;
            xs.swap(i, j);
        }
    }
}
