//! A hang is an observation too: a watchdog thread (real time, outside the simulation) notices
//! when the case being executed makes no progress for a long time, writes the case as a replay
//! file, prints the VIOLATION line and ends the process. Real time is used only to *detect* the
//! hang; it never influences what a run does.

use crate::report::Replay;
use std::sync::atomic::{AtomicU64, Ordering};
use std::sync::Mutex;

static BEAT: AtomicU64 = AtomicU64::new(0);
static CURRENT: Mutex<Option<(u64, serde_json::Value)>> = Mutex::new(None);

pub const HANG_SECS: u64 = 45;

/// Called before a case is executed.
pub fn begin_case(run_seed: u64, case: serde_json::Value) {
    *CURRENT.lock().unwrap_or_else(|e| e.into_inner()) = Some((run_seed, case));
    BEAT.fetch_add(1, Ordering::Relaxed);
}

pub fn end_case() {
    *CURRENT.lock().unwrap_or_else(|e| e.into_inner()) = None;
    BEAT.fetch_add(1, Ordering::Relaxed);
}

pub fn tick() {
    BEAT.fetch_add(1, Ordering::Relaxed);
}

/// `owner`: the property that owns "does not return" in this engine (C16 sequential, C17 scheduled).
pub fn start(prop: String, engine: String, owner: &'static str, replay_dir: std::path::PathBuf) {
    std::thread::spawn(move || {
        let mut last = BEAT.load(Ordering::Relaxed);
        let mut still = 0u64;
        loop {
            std::thread::sleep(std::time::Duration::from_secs(1));
            let now = BEAT.load(Ordering::Relaxed);
            let busy = CURRENT.lock().unwrap_or_else(|e| e.into_inner()).is_some();
            if now != last || !busy {
                last = now;
                still = 0;
                continue;
            }
            still += 1;
            if still >= HANG_SECS {
                let cur = CURRENT.lock().unwrap_or_else(|e| e.into_inner()).clone();
                if let Some((seed, case)) = cur {
                    if prop == owner {
                        let rp = Replay {
                            property: prop.clone(),
                            clause: "hang".into(),
                            signature: "hang".into(),
                            detail: format!("the case made no progress for {HANG_SECS} s of real time (an operation does not return)"),
                            engine: engine.clone(),
                            run_seed: seed,
                            case,
                        };
                        std::fs::create_dir_all(&replay_dir).ok();
                        let path = replay_dir.join(format!("{}-{}-hang-{:016x}.json", prop, engine, seed));
                        let _ = std::fs::write(&path, serde_json::to_string_pretty(&rp).unwrap());
                        println!("VIOLATION property={} replay={}", prop, path.display());
                        println!("  clause=hang: an operation did not return within {HANG_SECS} s");
                        println!("RESULT {}", serde_json::to_string(&crate::report::WorkerResult { property: prop.clone(), engine: engine.clone(), runs: 1, ..Default::default() }).unwrap());
                        std::process::exit(1);
                    } else {
                        // a hang belongs to another property: end this worker quietly
                        let mut r = crate::report::WorkerResult { property: prop.clone(), engine: engine.clone(), runs: 1, foreign_deviations: 1, ..Default::default() };
                        r.counters.inc("foreign.hang");
                        println!("RESULT {}", serde_json::to_string(&r).unwrap());
                        std::process::exit(0);
                    }
                }
            }
        }
    });
}
