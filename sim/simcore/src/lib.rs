pub mod check;
pub mod model;
pub mod rng;
pub mod report;
pub mod watchdog;
