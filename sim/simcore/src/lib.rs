pub fn hello() {}
