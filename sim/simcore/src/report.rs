//! Counters, violation records, replay files and a generic delta-debugging minimiser.

use serde::{Deserialize, Serialize};
use std::collections::{BTreeMap, BTreeSet};
use std::time::{Duration, Instant};

#[derive(Clone, Debug, Default, Serialize, Deserialize)]
pub struct Counters(pub BTreeMap<String, u64>);

impl Counters {
    pub fn inc(&mut self, k: &str) {
        self.add(k, 1);
    }
    pub fn add(&mut self, k: &str, n: u64) {
        if let Some(v) = self.0.get_mut(k) {
            *v += n;
        } else {
            self.0.insert(k.to_string(), n);
        }
    }
    pub fn get(&self, k: &str) -> u64 {
        *self.0.get(k).unwrap_or(&0)
    }
    pub fn merge(&mut self, o: &Counters) {
        for (k, v) in &o.0 {
            self.add(k, *v);
        }
    }
}

/// What a worker process reports on stdout as its last line (`RESULT <json>`).
#[derive(Clone, Debug, Default, Serialize, Deserialize)]
pub struct WorkerResult {
    pub property: String,
    pub engine: String,
    pub runs: u64,
    pub ops: u64,
    pub sim_ns: i128,
    pub counters: Counters,
    /// hashes of distinct non-trivial classes reached (rule stated by the engine)
    pub distinct: BTreeSet<u64>,
    /// hashes of distinct abstract model states / schedules
    pub states: BTreeSet<u64>,
    pub rule: String,
    pub samples: Vec<serde_json::Value>,
    pub foreign_deviations: u64,
    pub inconclusive: u64,
    pub violations: Vec<ViolationRef>,
    pub digest: u64,
}

#[derive(Clone, Debug, Serialize, Deserialize)]
pub struct ViolationRef {
    pub property: String,
    pub clause: String,
    pub detail: String,
    pub replay: String,
    pub signature: String,
}

/// A replay file: everything needed to re-execute one failing case without the seed.
#[derive(Clone, Debug, Serialize, Deserialize)]
pub struct Replay {
    pub property: String,
    pub clause: String,
    pub signature: String,
    pub detail: String,
    pub engine: String,
    pub run_seed: u64,
    pub case: serde_json::Value,
}

pub fn fnv(bytes: &[u8]) -> u64 {
    let mut h: u64 = 0xcbf2_9ce4_8422_2325;
    for b in bytes {
        h ^= *b as u64;
        h = h.wrapping_mul(0x0000_0100_0000_01B3);
    }
    h
}

pub fn hash_str(s: &str) -> u64 {
    fnv(s.as_bytes())
}

/// Delta debugging on a list: returns a (1-)minimal sub-list for which `fails` still holds.
/// `fails` must be deterministic. Stops refining when `budget` is used up.
pub fn ddmin<T: Clone>(items: Vec<T>, fails: &mut dyn FnMut(&[T]) -> bool, budget: Duration) -> Vec<T> {
    let start = Instant::now();
    let mut cur = items;
    let mut n = 2usize;
    while cur.len() >= 2 && start.elapsed() < budget {
        let chunk = (cur.len() + n - 1) / n;
        let mut reduced = false;
        let mut i = 0;
        while i * chunk < cur.len() {
            let lo = i * chunk;
            let hi = (lo + chunk).min(cur.len());
            let mut cand: Vec<T> = Vec::with_capacity(cur.len() - (hi - lo));
            cand.extend_from_slice(&cur[..lo]);
            cand.extend_from_slice(&cur[hi..]);
            if !cand.is_empty() && fails(&cand) {
                cur = cand;
                n = (n - 1).max(2);
                reduced = true;
                break;
            }
            i += 1;
            if start.elapsed() >= budget {
                break;
            }
        }
        if !reduced {
            if n >= cur.len() {
                break;
            }
            n = (n * 2).min(cur.len());
        }
    }
    // final pass: single removals
    let mut i = 0;
    while i < cur.len() && cur.len() > 1 && start.elapsed() < budget {
        let mut cand = cur.clone();
        cand.remove(i);
        if fails(&cand) {
            cur = cand;
        } else {
            i += 1;
        }
    }
    cur
}
