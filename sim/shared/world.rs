//! The simulated world seen by decorated bodies and predicates: execution stamps, scripted
//! outcomes, predicate verdicts and the logs the oracles read. Shared by both harness builds.
//! Uses real `std::sync::Mutex` on purpose: the world is not part of the system under test and
//! must not add scheduling points.

use crate::vals::RetVal;
use ::std::collections::HashMap;
use ::std::future::Future;
use ::std::pin::Pin;
use ::std::sync::Mutex;
use ::std::task::{Context, Poll};

pub type Key = u8;

/// What the simulator decided for one call (used only if the body / predicates run).
#[derive(Clone, Copy, Debug, Default, PartialEq)]
pub struct Script {
    pub err: bool,
    pub size: u32,
    pub shape: u8,
    pub dur_ns: i64,
    pub gates: u8,
    pub inv_verdict: bool,
    pub cif_verdict: bool,
}

#[derive(Clone, Debug, PartialEq)]
pub struct ExecRec {
    pub stamp: u64,
    pub fn_id: u16,
    pub k: Key,
    pub finished: bool,
    /// simulated thread that ran the body (0 unless a task-id hook is installed)
    pub task: u64,
    /// the plan this execution started under (its cache_if verdict travels with it)
    pub script: Script,
}

#[derive(Default)]
pub struct World {
    pub seq: u64,
    pub execs: Vec<ExecRec>,
    /// (fn, key string passed to the check, stamp of the value it was shown)
    pub inv_seen: Vec<(u16, String, u64)>,
    pub cif_seen: Vec<(u16, String, u64)>,
    /// plan of the call currently in progress per (fn, key)
    pub cur: HashMap<(u16, Key), Script>,
    /// argument representation -> key index, per function
    pub reprs: HashMap<(u16, String), Key>,
    /// bodies whose arguments did not match any known tuple (must stay empty)
    pub unknown_args: Vec<(u16, String)>,
    /// verdict source when no plan is registered: parity of (stamp + salt)
    pub salt: u64,
}

pub static WORLD: Mutex<Option<World>> = Mutex::new(None);

static TASK_HOOK: ::std::sync::atomic::AtomicUsize = ::std::sync::atomic::AtomicUsize::new(0);

/// Installs the function that names the current (simulated) thread.
pub fn set_task_hook(f: fn() -> u64) {
    TASK_HOOK.store(f as usize, ::std::sync::atomic::Ordering::SeqCst);
}

pub fn current_task() -> u64 {
    let p = TASK_HOOK.load(::std::sync::atomic::Ordering::Relaxed);
    if p == 0 {
        0
    } else {
        let f: fn() -> u64 = unsafe { ::std::mem::transmute::<usize, fn() -> u64>(p) };
        f()
    }
}

pub fn with<T>(f: impl FnOnce(&mut World) -> T) -> T {
    let mut g = WORLD.lock().unwrap_or_else(|e| e.into_inner());
    if g.is_none() {
        *g = Some(World::default());
    }
    f(g.as_mut().unwrap())
}

/// Forgets logs and plans of the previous run (key tables stay).
pub fn reset_run(salt: u64) {
    with(|w| {
        w.seq = 0;
        w.execs.clear();
        w.inv_seen.clear();
        w.cif_seen.clear();
        w.cur.clear();
        w.unknown_args.clear();
        w.salt = salt;
    });
}

pub fn set_plan(fn_id: u16, k: Key, s: Script) {
    with(|w| {
        w.cur.insert((fn_id, k), s);
    });
}

fn start_exec(fn_id: u16, repr: &str) -> (u64, Key, Script) {
    let task = current_task();
    with(|w| {
        let k = match w.reprs.get(&(fn_id, repr.to_string())) {
            Some(k) => *k,
            None => {
                w.unknown_args.push((fn_id, repr.to_string()));
                255
            }
        };
        w.seq += 1;
        let stamp = w.seq;
        let s = w.cur.get(&(fn_id, k)).cloned().unwrap_or_default();
        w.execs.push(ExecRec { stamp, fn_id, k, finished: false, task, script: s });
        (stamp, k, s)
    })
}

fn finish_exec(stamp: u64) {
    with(|w| {
        if let Some(e) = w.execs.iter_mut().rev().find(|e| e.stamp == stamp) {
            e.finished = true;
        }
    });
}

/// Body of every sync corpus function.
pub fn body<R: RetVal>(fn_id: u16, repr: String) -> R {
    let (stamp, _k, s) = start_exec(fn_id, &repr);
    if s.dur_ns != 0 {
        cachelito_core::verif_seams::advance_ns(s.dur_ns);
    }
    finish_exec(stamp);
    R::r_build(stamp, s.err, s.size as usize, s.shape)
}

/// A future that is pending exactly once: one await point of a simulated body.
pub struct Gate {
    passed: bool,
}
impl Future for Gate {
    type Output = ();
    fn poll(mut self: Pin<&mut Self>, cx: &mut Context<'_>) -> Poll<()> {
        if self.passed {
            Poll::Ready(())
        } else {
            self.passed = true;
            cx.waker().wake_by_ref();
            Poll::Pending
        }
    }
}

/// Body of every async corpus function: `gates` await points, time passes at each.
pub async fn abody<R: RetVal>(fn_id: u16, repr: String) -> R {
    let (stamp, _k, s) = start_exec(fn_id, &repr);
    let gates = s.gates.max(1);
    for g in 0..gates {
        Gate { passed: false }.await;
        // the whole scripted duration passes at the first await (keeps whole-second scripts whole)
        if g == 0 && s.dur_ns != 0 {
            cachelito_core::verif_seams::advance_ns(s.dur_ns);
        }
    }
    finish_exec(stamp);
    R::r_build(stamp, s.err, s.size as usize, s.shape)
}

fn key_of_stamp(w: &World, stamp: u64) -> Option<(u16, Key)> {
    w.execs.iter().rev().find(|e| e.stamp == stamp).map(|e| (e.fn_id, e.k))
}

/// `invalidate_on` check of function `fn_id`: true = the cached value is stale.
pub fn inv_on<R: RetVal>(fn_id: u16, key: &String, v: &R) -> bool {
    with(|w| {
        let stamp = v.r_stamp();
        w.inv_seen.push((fn_id, key.clone(), stamp));
        match key_of_stamp(w, stamp).and_then(|fk| w.cur.get(&fk)) {
            Some(s) => s.inv_verdict,
            None => (stamp + w.salt) % 3 == 0,
        }
    })
}

/// `cache_if` predicate of function `fn_id`: true = store the result.
pub fn cache_if<R: RetVal>(fn_id: u16, key: &String, v: &R) -> bool {
    with(|w| {
        let stamp = v.r_stamp();
        w.cif_seen.push((fn_id, key.clone(), stamp));
        // the verdict scripted for the execution that produced this value
        match w.execs.iter().rev().find(|e| e.stamp == stamp) {
            Some(e) => e.script.cif_verdict,
            None => (stamp + w.salt) % 2 == 0,
        }
    })
}

/// Polls a future to completion on the spot (the simulator is the executor).
pub fn drive<F: Future>(fut: F) -> F::Output {
    let mut fut = Box::pin(fut);
    let waker = ::std::task::Waker::noop();
    let mut cx = Context::from_waker(&waker);
    loop {
        if let Poll::Ready(v) = fut.as_mut().poll(&mut cx) {
            return v;
        }
    }
}
