//! Value types stored in the caches and the harness's *own* footprint computation
//! (inline size + owned heap capacity, recursively — written from the property text, not from
//! the library's estimator).

use cachelito_core::MemoryEstimator;

/// Owned heap bytes of a value.
pub trait Heap {
    fn heap(&self) -> usize;
}

pub fn footprint<T: Heap>(v: &T) -> usize {
    std::mem::size_of_val(v) + v.heap()
}

impl Heap for u64 {
    fn heap(&self) -> usize {
        0
    }
}
impl Heap for u8 {
    fn heap(&self) -> usize {
        0
    }
}
impl Heap for String {
    fn heap(&self) -> usize {
        self.capacity()
    }
}
impl<T: Heap> Heap for Vec<T> {
    fn heap(&self) -> usize {
        self.capacity() * std::mem::size_of::<T>() + self.iter().map(|x| x.heap()).sum::<usize>()
    }
}
impl<T: Heap> Heap for Option<T> {
    fn heap(&self) -> usize {
        self.as_ref().map_or(0, |x| x.heap())
    }
}
impl<T: Heap> Heap for Box<T> {
    fn heap(&self) -> usize {
        std::mem::size_of::<T>() + (**self).heap()
    }
}
impl<T: Heap, E: Heap> Heap for Result<T, E> {
    fn heap(&self) -> usize {
        match self {
            Ok(x) => x.heap(),
            Err(x) => x.heap(),
        }
    }
}
impl<A: Heap, B: Heap> Heap for (A, B) {
    fn heap(&self) -> usize {
        self.0.heap() + self.1.heap()
    }
}
impl<A: Heap, B: Heap, C: Heap> Heap for (A, B, C) {
    fn heap(&self) -> usize {
        self.0.heap() + self.1.heap() + self.2.heap()
    }
}

/// User type with its own estimator: the footprint is *what the estimator reports*.
#[derive(Clone, Debug, PartialEq)]
pub struct UserVal {
    pub stamp: u64,
    pub pad: String,
    /// what the user's estimator claims (scripted by the simulator, >= inline size)
    pub claimed: usize,
}
impl MemoryEstimator for UserVal {
    fn estimate_memory(&self) -> usize {
        self.claimed
    }
}

/// A value the harness can build, identify and measure.
pub trait HVal: Clone + MemoryEstimator + 'static {
    const NAME: &'static str;
    fn make(stamp: u64, size: usize, shape: u8) -> Self;
    fn stamp(&self) -> u64;
    fn fp(&self) -> usize;
}

fn pad_string(size: usize, shape: u8) -> String {
    // shape bit 0: capacity larger than length (the estimator must count capacity)
    let extra = if shape & 1 == 1 { 7 + size / 3 } else { 0 };
    let mut s = String::with_capacity(size + extra);
    for i in 0..size {
        s.push((b'a' + (i % 26) as u8) as char);
    }
    s
}

impl HVal for UserVal {
    const NAME: &'static str = "UserVal{custom estimator}";
    fn make(stamp: u64, size: usize, shape: u8) -> Self {
        // the user's estimator reports a scripted figure that is unrelated to the real layout
        let claimed = std::mem::size_of::<UserVal>() + size;
        UserVal { stamp, pad: pad_string(size % 5, shape), claimed }
    }
    fn stamp(&self) -> u64 {
        self.stamp
    }
    fn fp(&self) -> usize {
        self.claimed
    }
}

impl HVal for (u64, String) {
    const NAME: &'static str = "(u64,String)";
    fn make(stamp: u64, size: usize, shape: u8) -> Self {
        (stamp, pad_string(size, shape))
    }
    fn stamp(&self) -> u64 {
        self.0
    }
    fn fp(&self) -> usize {
        footprint(self)
    }
}

impl HVal for (u64, Vec<u8>) {
    const NAME: &'static str = "(u64,Vec<u8>)";
    fn make(stamp: u64, size: usize, shape: u8) -> Self {
        (stamp, pad_string(size, shape).into_bytes())
    }
    fn stamp(&self) -> u64 {
        self.0
    }
    fn fp(&self) -> usize {
        footprint(self)
    }
}

impl HVal for (u64, Vec<String>) {
    const NAME: &'static str = "(u64,Vec<String>)";
    fn make(stamp: u64, size: usize, shape: u8) -> Self {
        // spread the payload over 1..3 strings; the vector itself may have spare capacity
        let parts = 1 + (shape as usize >> 1) % 3;
        let mut v: Vec<String> = Vec::with_capacity(parts + if shape & 1 == 1 { 2 } else { 0 });
        let each = size / parts;
        for i in 0..parts {
            let n = if i == parts - 1 { size - each * (parts - 1) } else { each };
            v.push(pad_string(n, shape));
        }
        (stamp, v)
    }
    fn stamp(&self) -> u64 {
        self.0
    }
    fn fp(&self) -> usize {
        footprint(self)
    }
}

impl HVal for (u64, Option<String>) {
    const NAME: &'static str = "(u64,Option<String>)";
    fn make(stamp: u64, size: usize, shape: u8) -> Self {
        if size == 0 && shape & 2 == 2 {
            (stamp, None)
        } else {
            (stamp, Some(pad_string(size, shape)))
        }
    }
    fn stamp(&self) -> u64 {
        self.0
    }
    fn fp(&self) -> usize {
        footprint(self)
    }
}

impl HVal for (u64, Box<String>) {
    const NAME: &'static str = "(u64,Box<String>)";
    fn make(stamp: u64, size: usize, shape: u8) -> Self {
        (stamp, Box::new(pad_string(size, shape)))
    }
    fn stamp(&self) -> u64 {
        self.0
    }
    fn fp(&self) -> usize {
        footprint(self)
    }
}

impl HVal for (u64, Result<String, String>) {
    const NAME: &'static str = "(u64,Result<String,String>)";
    fn make(stamp: u64, size: usize, shape: u8) -> Self {
        if shape & 2 == 2 {
            (stamp, Err(pad_string(size, shape)))
        } else {
            (stamp, Ok(pad_string(size, shape)))
        }
    }
    fn stamp(&self) -> u64 {
        self.0
    }
    fn fp(&self) -> usize {
        footprint(self)
    }
}

impl HVal for (u64, (String, Vec<u8>)) {
    const NAME: &'static str = "(u64,(String,Vec<u8>))";
    fn make(stamp: u64, size: usize, shape: u8) -> Self {
        let a = size / 2;
        (stamp, (pad_string(a, shape), pad_string(size - a, shape >> 1).into_bytes()))
    }
    fn stamp(&self) -> u64 {
        self.0
    }
    fn fp(&self) -> usize {
        footprint(self)
    }
}

impl HVal for (u64, u8, String) {
    const NAME: &'static str = "(u64,u8,String)";
    fn make(stamp: u64, size: usize, shape: u8) -> Self {
        (stamp, shape, pad_string(size, shape))
    }
    fn stamp(&self) -> u64 {
        self.0
    }
    fn fp(&self) -> usize {
        footprint(self)
    }
}

macro_rules! result_hval {
    ($t:ty, $e:ty, $name:expr) => {
        impl HVal for Result<$t, $e> {
            const NAME: &'static str = $name;
            fn make(stamp: u64, size: usize, shape: u8) -> Self {
                Ok(<$t as HVal>::make(stamp, size, shape))
            }
            fn stamp(&self) -> u64 {
                match self {
                    Ok(v) => HVal::stamp(v),
                    Err(e) => HVal::stamp(e),
                }
            }
            fn fp(&self) -> usize {
                footprint(self)
            }
        }
    };
}
result_hval!((u64, String), (u64, String), "Result<(u64,String),(u64,String)>");
result_hval!((u64, Vec<u8>), (u64, String), "Result<(u64,Vec<u8>),(u64,String)>");
result_hval!(UserVal, UserVal, "Result<UserVal,UserVal>");

/// value types drawn by the L1 generators (the Result types are used by the differential engine only)
pub const N_VTYPES: u8 = 9;

/// Inline (zero-payload) footprint of each L1 value type, so generators can aim at M.
pub fn base_fp(vtype: u8) -> usize {
    match vtype {
        0 => std::mem::size_of::<UserVal>(),
        1 => std::mem::size_of::<(u64, String)>(),
        2 => std::mem::size_of::<(u64, Vec<u8>)>(),
        3 => std::mem::size_of::<(u64, Vec<String>)>() + std::mem::size_of::<String>(),
        4 => std::mem::size_of::<(u64, Option<String>)>(),
        5 => std::mem::size_of::<(u64, Box<String>)>() + std::mem::size_of::<String>(),
        6 => std::mem::size_of::<(u64, Result<String, String>)>(),
        7 => std::mem::size_of::<(u64, (String, Vec<u8>))>(),
        _ => std::mem::size_of::<(u64, u8, String)>(),
    }
}

// ------------------------------------------------------------------------------------------
// Return values of the macro-generated corpus functions (level L2)

/// A value a decorated body can return: identifiable by its stamp, Ok or Err, measurable.
pub trait RetVal: Clone + 'static {
    fn r_build(stamp: u64, err: bool, size: usize, shape: u8) -> Self;
    fn r_stamp(&self) -> u64;
    fn r_is_err(&self) -> bool;
    /// harness footprint (inline + owned heap), computed on the value it is called on
    fn r_fp(&self) -> usize;
}

macro_rules! plain_ret {
    ($t:ty) => {
        impl RetVal for $t {
            fn r_build(stamp: u64, _err: bool, size: usize, shape: u8) -> Self {
                <$t as HVal>::make(stamp, size, shape)
            }
            fn r_stamp(&self) -> u64 {
                HVal::stamp(self)
            }
            fn r_is_err(&self) -> bool {
                false
            }
            fn r_fp(&self) -> usize {
                HVal::fp(self)
            }
        }
    };
}
plain_ret!(UserVal);
plain_ret!((u64, String));
plain_ret!((u64, Vec<u8>));
plain_ret!((u64, Vec<String>));
plain_ret!((u64, Option<String>));
plain_ret!((u64, Box<String>));
plain_ret!((u64, (String, Vec<u8>)));
plain_ret!((u64, u8, String));

impl Heap for UserVal {
    fn heap(&self) -> usize {
        // a user type's footprint is what its estimator reports
        self.claimed.saturating_sub(std::mem::size_of::<UserVal>())
    }
}

impl<T: HVal + Heap, E: HVal + Heap> RetVal for Result<T, E> {
    fn r_build(stamp: u64, err: bool, size: usize, shape: u8) -> Self {
        if err {
            Err(E::make(stamp, size, shape))
        } else {
            Ok(T::make(stamp, size, shape))
        }
    }
    fn r_stamp(&self) -> u64 {
        match self {
            Ok(v) => HVal::stamp(v),
            Err(e) => HVal::stamp(e),
        }
    }
    fn r_is_err(&self) -> bool {
        Result::is_err(self)
    }
    fn r_fp(&self) -> usize {
        footprint(self)
    }
}
