//! Model of the part of `parking_lot` that cachelito uses, on top of shuttle's scheduled
//! `Mutex` / `RwLock`: every acquisition is a scheduling point, blocking and exclusion are
//! modelled at lock granularity, re-entrant acquisition and deadlock are detected by shuttle.
//! Not modelled: fairness, writer preference, timing. parking_lot locks do not poison; neither
//! do these.

use std::marker::PhantomData;
use std::ops::{Deref, DerefMut};

/// Counts lock acquisitions (coverage only).
pub static ACQUISITIONS: std::sync::atomic::AtomicU64 = std::sync::atomic::AtomicU64::new(0);

fn note() {
    ACQUISITIONS.fetch_add(1, std::sync::atomic::Ordering::Relaxed);
}

pub struct RawMutex;
pub struct RawRwLock;

pub mod lock_api {
    use super::*;

    pub struct MutexGuard<'a, R, T: ?Sized> {
        pub(crate) g: shuttle::sync::MutexGuard<'a, T>,
        pub(crate) _r: PhantomData<R>,
    }
    impl<R, T: ?Sized> Deref for MutexGuard<'_, R, T> {
        type Target = T;
        fn deref(&self) -> &T {
            &self.g
        }
    }
    impl<R, T: ?Sized> DerefMut for MutexGuard<'_, R, T> {
        fn deref_mut(&mut self) -> &mut T {
            &mut self.g
        }
    }

    pub struct RwLockReadGuard<'a, R, T: ?Sized> {
        pub(crate) lock: &'a super::RwLock<T>,
        pub(crate) _r: PhantomData<R>,
    }
    impl<R, T: ?Sized> Deref for RwLockReadGuard<'_, R, T> {
        type Target = T;
        fn deref(&self) -> &T {
            unsafe { &*self.lock.data.get() }
        }
    }
    impl<R, T: ?Sized> Drop for RwLockReadGuard<'_, R, T> {
        fn drop(&mut self) {
            self.lock.release_read();
        }
    }

    pub struct RwLockWriteGuard<'a, R, T: ?Sized> {
        pub(crate) lock: &'a super::RwLock<T>,
        pub(crate) _r: PhantomData<R>,
    }
    impl<R, T: ?Sized> Deref for RwLockWriteGuard<'_, R, T> {
        type Target = T;
        fn deref(&self) -> &T {
            unsafe { &*self.lock.data.get() }
        }
    }
    impl<R, T: ?Sized> DerefMut for RwLockWriteGuard<'_, R, T> {
        fn deref_mut(&mut self) -> &mut T {
            unsafe { &mut *self.lock.data.get() }
        }
    }
    impl<R, T: ?Sized> Drop for RwLockWriteGuard<'_, R, T> {
        fn drop(&mut self) {
            self.lock.release_write();
        }
    }
}

pub type MutexGuard<'a, T> = lock_api::MutexGuard<'a, RawMutex, T>;
pub type RwLockReadGuard<'a, T> = lock_api::RwLockReadGuard<'a, RawRwLock, T>;
pub type RwLockWriteGuard<'a, T> = lock_api::RwLockWriteGuard<'a, RawRwLock, T>;

pub struct Mutex<T: ?Sized>(shuttle::sync::Mutex<T>);

impl<T> Mutex<T> {
    pub const fn new(v: T) -> Self {
        Mutex(shuttle::sync::Mutex::new(v))
    }
    pub fn into_inner(self) -> T {
        self.0.into_inner().unwrap_or_else(|e| e.into_inner())
    }
}
impl<T: ?Sized> Mutex<T> {
    pub fn lock(&self) -> MutexGuard<'_, T> {
        note();
        lock_api::MutexGuard { g: self.0.lock().unwrap_or_else(|e| e.into_inner()), _r: PhantomData }
    }
    pub fn try_lock(&self) -> Option<MutexGuard<'_, T>> {
        note();
        match self.0.try_lock() {
            Ok(g) => Some(lock_api::MutexGuard { g, _r: PhantomData }),
            Err(shuttle::sync::TryLockError::Poisoned(e)) => Some(lock_api::MutexGuard { g: e.into_inner(), _r: PhantomData }),
            Err(shuttle::sync::TryLockError::WouldBlock) => None,
        }
    }
    pub fn get_mut(&mut self) -> &mut T {
        self.0.get_mut().unwrap_or_else(|e| e.into_inner())
    }
}
impl<T: Default> Default for Mutex<T> {
    fn default() -> Self {
        Mutex::new(T::default())
    }
}
impl<T: ?Sized> std::fmt::Debug for Mutex<T> {
    fn fmt(&self, f: &mut std::fmt::Formatter<'_>) -> std::fmt::Result {
        f.write_str("Mutex { .. }")
    }
}

/// Writer-preferring reader-writer lock (parking_lot's policy: once a writer waits, new readers
/// block, so a thread that re-acquires a read lock it already holds deadlocks if a writer queued
/// in between). Built on shuttle's scheduled `Mutex` + `Condvar`: every acquisition is a scheduling
/// point and a blocked acquisition is visible to shuttle's deadlock detector.
pub struct RwLock<T: ?Sized> {
    state: shuttle::sync::Mutex<RwState>,
    cond: shuttle::sync::Condvar,
    data: std::cell::UnsafeCell<T>,
}

#[derive(Default)]
struct RwState {
    readers: usize,
    writer: bool,
    writers_waiting: usize,
}

unsafe impl<T: ?Sized + Send> Send for RwLock<T> {}
unsafe impl<T: ?Sized + Send + Sync> Sync for RwLock<T> {}

impl<T> RwLock<T> {
    pub const fn new(v: T) -> Self {
        RwLock { state: shuttle::sync::Mutex::new(RwState { readers: 0, writer: false, writers_waiting: 0 }), cond: shuttle::sync::Condvar::new(), data: std::cell::UnsafeCell::new(v) }
    }
    pub fn into_inner(self) -> T {
        self.data.into_inner()
    }
}

impl<T: ?Sized> RwLock<T> {
    fn st(&self) -> shuttle::sync::MutexGuard<'_, RwState> {
        self.state.lock().unwrap_or_else(|e| e.into_inner())
    }
    pub fn read(&self) -> RwLockReadGuard<'_, T> {
        note();
        let mut st = self.st();
        while st.writer || st.writers_waiting > 0 {
            st = self.cond.wait(st).unwrap_or_else(|e| e.into_inner());
        }
        st.readers += 1;
        drop(st);
        lock_api::RwLockReadGuard { lock: self, _r: PhantomData }
    }
    pub fn write(&self) -> RwLockWriteGuard<'_, T> {
        note();
        let mut st = self.st();
        st.writers_waiting += 1;
        while st.writer || st.readers > 0 {
            st = self.cond.wait(st).unwrap_or_else(|e| e.into_inner());
        }
        st.writers_waiting -= 1;
        st.writer = true;
        drop(st);
        lock_api::RwLockWriteGuard { lock: self, _r: PhantomData }
    }
    pub fn try_read(&self) -> Option<RwLockReadGuard<'_, T>> {
        note();
        let mut st = self.st();
        if st.writer || st.writers_waiting > 0 {
            return None;
        }
        st.readers += 1;
        drop(st);
        Some(lock_api::RwLockReadGuard { lock: self, _r: PhantomData })
    }
    pub fn try_write(&self) -> Option<RwLockWriteGuard<'_, T>> {
        note();
        let mut st = self.st();
        if st.writer || st.readers > 0 {
            return None;
        }
        st.writer = true;
        drop(st);
        Some(lock_api::RwLockWriteGuard { lock: self, _r: PhantomData })
    }
    /// parking_lot's explicit recursion-safe variant: does not wait behind queued writers
    pub fn read_recursive(&self) -> RwLockReadGuard<'_, T> {
        note();
        let mut st = self.st();
        while st.writer {
            st = self.cond.wait(st).unwrap_or_else(|e| e.into_inner());
        }
        st.readers += 1;
        drop(st);
        lock_api::RwLockReadGuard { lock: self, _r: PhantomData }
    }
    pub fn get_mut(&mut self) -> &mut T {
        self.data.get_mut()
    }
    fn release_read(&self) {
        if std::thread::panicking() {
            // the execution is failing and will be torn down; touching the scheduler from a
            // destructor during unwinding would turn the failure into an abort
            return;
        }
        let mut st = self.st();
        st.readers -= 1;
        drop(st);
        self.cond.notify_all();
    }
    fn release_write(&self) {
        if std::thread::panicking() {
            return;
        }
        let mut st = self.st();
        st.writer = false;
        drop(st);
        self.cond.notify_all();
    }
}
impl<T: Default> Default for RwLock<T> {
    fn default() -> Self {
        RwLock::new(T::default())
    }
}
impl<T: ?Sized> std::fmt::Debug for RwLock<T> {
    fn fmt(&self, f: &mut std::fmt::Formatter<'_>) -> std::fmt::Result {
        f.write_str("RwLock { .. }")
    }
}

pub const fn const_mutex<T>(v: T) -> Mutex<T> {
    Mutex::new(v)
}
pub const fn const_rwlock<T>(v: T) -> RwLock<T> {
    RwLock::new(v)
}

/// `upgradable_read` is modelled as an exclusive lock (at most one upgradable reader exists in
/// parking_lot as well; the model is stricter towards plain readers).
pub struct RwLockUpgradableReadGuard<'a, T: ?Sized>(RwLockWriteGuard<'a, T>);
impl<T: ?Sized> Deref for RwLockUpgradableReadGuard<'_, T> {
    type Target = T;
    fn deref(&self) -> &T {
        &self.0
    }
}
impl<'a, T: ?Sized> RwLockUpgradableReadGuard<'a, T> {
    pub fn upgrade(s: Self) -> RwLockWriteGuard<'a, T> {
        s.0
    }
}
impl<T: ?Sized> RwLock<T> {
    pub fn upgradable_read(&self) -> RwLockUpgradableReadGuard<'_, T> {
        RwLockUpgradableReadGuard(self.write())
    }
    pub fn is_locked(&self) -> bool {
        let st = self.st();
        st.writer || st.readers > 0
    }
}
impl<T: ?Sized> Mutex<T> {
    pub fn is_locked(&self) -> bool {
        match self.0.try_lock() {
            Ok(_) => false,
            Err(_) => true,
        }
    }
    pub fn try_lock_for(&self, _d: std::time::Duration) -> Option<MutexGuard<'_, T>> {
        self.try_lock()
    }
}
