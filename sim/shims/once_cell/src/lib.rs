//! `once_cell::sync::{Lazy, OnceCell}` whose contents live in shuttle's per-execution storage
//! (keyed by the cell's address): a `static` cache starts empty in every execution, and a racing
//! first access blocks on a scheduled `Once` exactly like the real cell does.

pub mod sync {
    use shuttle_engine::runtime::execution::ExecutionState;
    use shuttle_engine::runtime::storage::StorageKey;
    use std::marker::PhantomData;
    use std::ops::Deref;

    struct Slot<T>(T);

    unsafe fn extend<'a, T>(t: &T) -> &'a T {
        std::mem::transmute(t)
    }

    fn key(addr: usize) -> StorageKey {
        StorageKey(addr, 0x51)
    }

    pub struct OnceCell<T> {
        once: shuttle::sync::Once,
        _p: PhantomData<T>,
    }

    unsafe impl<T: Send + Sync> Sync for OnceCell<T> {}
    unsafe impl<T: Send> Send for OnceCell<T> {}

    impl<T: 'static> OnceCell<T> {
        pub const fn new() -> Self {
            OnceCell { once: shuttle::sync::Once::new(), _p: PhantomData }
        }
        fn addr(&self) -> usize {
            self as *const _ as usize
        }
        pub fn get(&self) -> Option<&T> {
            // completed initialisation is visible; an initialisation in progress is not
            if !self.once.is_completed() {
                return None;
            }
            ExecutionState::with(|s| s.get_storage::<_, Slot<T>>(key(self.addr())).map(|v| unsafe { extend(&v.0) }))
        }
        pub fn get_or_init<F: FnOnce() -> T>(&self, f: F) -> &T {
            self.once.call_once(|| {
                let v = f();
                ExecutionState::with(|s| s.init_storage(key(self.addr()), Slot(v)));
            });
            ExecutionState::with(|s| {
                let v: &Slot<T> = s.get_storage(key(self.addr())).expect("initialised");
                unsafe { extend(&v.0) }
            })
        }
        pub fn get_or_try_init<E, F: FnOnce() -> Result<T, E>>(&self, f: F) -> Result<&T, E> {
            if let Some(v) = self.get() {
                return Ok(v);
            }
            let v = f()?;
            Ok(self.get_or_init(|| v))
        }
        pub fn set(&self, value: T) -> Result<(), T> {
            let mut v = Some(value);
            self.once.call_once(|| {
                let x = v.take().unwrap();
                ExecutionState::with(|s| s.init_storage(key(self.addr()), Slot(x)));
            });
            match v {
                None => Ok(()),
                Some(x) => Err(x),
            }
        }
    }

    impl<T: 'static> Default for OnceCell<T> {
        fn default() -> Self {
            Self::new()
        }
    }

    pub struct Lazy<T, F = fn() -> T> {
        cell: OnceCell<T>,
        init: F,
    }

    unsafe impl<T: Send + Sync, F: Send> Sync for Lazy<T, F> {}

    impl<T: 'static, F> Lazy<T, F> {
        pub const fn new(f: F) -> Self {
            Lazy { cell: OnceCell::new(), init: f }
        }
    }

    impl<T: 'static, F: Fn() -> T> Lazy<T, F> {
        pub fn force(this: &Lazy<T, F>) -> &T {
            this.cell.get_or_init(|| (this.init)())
        }
    }

    impl<T: 'static, F: Fn() -> T> Deref for Lazy<T, F> {
        type Target = T;
        fn deref(&self) -> &T {
            Lazy::force(self)
        }
    }

    impl<T, F> std::fmt::Debug for Lazy<T, F> {
        fn fmt(&self, f: &mut std::fmt::Formatter<'_>) -> std::fmt::Result {
            f.write_str("Lazy { .. }")
        }
    }
}

/// Single-threaded cells: the real thing (no scheduling involved).
pub mod unsync {
    pub struct OnceCell<T>(std::cell::OnceCell<T>);
    impl<T> OnceCell<T> {
        pub const fn new() -> Self {
            OnceCell(std::cell::OnceCell::new())
        }
        pub fn get(&self) -> Option<&T> {
            self.0.get()
        }
        pub fn get_or_init<F: FnOnce() -> T>(&self, f: F) -> &T {
            self.0.get_or_init(f)
        }
        pub fn set(&self, v: T) -> Result<(), T> {
            self.0.set(v)
        }
    }
    impl<T> Default for OnceCell<T> {
        fn default() -> Self {
            Self::new()
        }
    }
    pub struct Lazy<T, F = fn() -> T>(std::cell::LazyCell<T, F>);
    impl<T, F: FnOnce() -> T> Lazy<T, F> {
        pub const fn new(f: F) -> Self {
            Lazy(std::cell::LazyCell::new(f))
        }
        pub fn force(this: &Self) -> &T {
            std::cell::LazyCell::force(&this.0)
        }
    }
    impl<T, F: FnOnce() -> T> std::ops::Deref for Lazy<T, F> {
        type Target = T;
        fn deref(&self) -> &T {
            std::cell::LazyCell::force(&self.0)
        }
    }
}
