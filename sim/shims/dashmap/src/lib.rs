//! Model of `dashmap::DashMap`: S shards, each a scheduled `RwLock<BTreeMap>`. `get` holds the
//! shard's read lock for the life of the returned `Ref`, `get_mut` / `insert` / `remove` take the
//! write lock, `iter` / `len` / `clear` visit the shards one lock at a time — the granularity at
//! which the real map can block or deadlock. The number of shards (1, 2, 4) and the key -> shard
//! salt are per-run knobs; S = 1 is the adversarial "all keys collide" case that the real map
//! reaches for some pair of keys.

use shuttle::sync::{RwLock, RwLockReadGuard, RwLockWriteGuard};
use std::collections::BTreeMap;
use std::hash::{Hash, Hasher};
use std::ops::{Deref, DerefMut};
use std::rc::Rc;
use std::sync::atomic::{AtomicU64, AtomicUsize, Ordering};

pub mod try_result {
    /// Result of the non-blocking lookups.
    #[derive(Debug)]
    pub enum TryResult<R> {
        Present(R),
        Absent,
        Locked,
    }
    impl<R> TryResult<R> {
        pub fn is_present(&self) -> bool {
            matches!(self, TryResult::Present(_))
        }
        pub fn is_absent(&self) -> bool {
            matches!(self, TryResult::Absent)
        }
        pub fn is_locked(&self) -> bool {
            matches!(self, TryResult::Locked)
        }
        pub fn unwrap(self) -> R {
            match self {
                TryResult::Present(r) => r,
                _ => panic!("called `TryResult::unwrap()` on a non-present value"),
            }
        }
        pub fn try_unwrap(self) -> Option<R> {
            match self {
                TryResult::Present(r) => Some(r),
                _ => None,
            }
        }
    }
}

pub static SHARDS: AtomicUsize = AtomicUsize::new(4);
pub static SALT: AtomicU64 = AtomicU64::new(0);
pub const MAX_SHARDS: usize = 4;

struct Fnv(u64);
impl Hasher for Fnv {
    fn finish(&self) -> u64 {
        self.0
    }
    fn write(&mut self, bytes: &[u8]) {
        for b in bytes {
            self.0 ^= *b as u64;
            self.0 = self.0.wrapping_mul(0x100000001b3);
        }
    }
}

pub struct DashMap<K, V> {
    shards: [RwLock<BTreeMap<K, V>>; MAX_SHARDS],
}

unsafe impl<K: Send, V: Send> Send for DashMap<K, V> {}
unsafe impl<K: Send + Sync, V: Send + Sync> Sync for DashMap<K, V> {}

impl<K: Ord + Hash + Eq, V> Default for DashMap<K, V> {
    fn default() -> Self {
        Self::new()
    }
}

impl<K: Ord + Hash + Eq, V> DashMap<K, V> {
    pub fn new() -> Self {
        DashMap { shards: [RwLock::new(BTreeMap::new()), RwLock::new(BTreeMap::new()), RwLock::new(BTreeMap::new()), RwLock::new(BTreeMap::new())] }
    }

    fn shard_of<Q: Hash + ?Sized>(&self, k: &Q) -> usize {
        let mut h = Fnv(0xcbf29ce484222325 ^ SALT.load(Ordering::Relaxed));
        k.hash(&mut h);
        (h.finish() % SHARDS.load(Ordering::Relaxed).clamp(1, MAX_SHARDS) as u64) as usize
    }

    fn n(&self) -> usize {
        SHARDS.load(Ordering::Relaxed).clamp(1, MAX_SHARDS)
    }

    pub fn get<Q>(&self, key: &Q) -> Option<Ref<'_, K, V>>
    where
        K: std::borrow::Borrow<Q>,
        Q: Ord + Hash + ?Sized,
    {
        let g = self.shards[self.shard_of(key)].read().unwrap_or_else(|e| e.into_inner());
        let (k, v) = g.get_key_value(key).map(|(k, v)| (k as *const K, v as *const V))?;
        Some(Ref { _g: g, k, v })
    }

    pub fn get_mut<Q>(&self, key: &Q) -> Option<RefMut<'_, K, V>>
    where
        K: std::borrow::Borrow<Q>,
        Q: Ord + Hash + ?Sized,
    {
        let mut g = self.shards[self.shard_of(key)].write().unwrap_or_else(|e| e.into_inner());
        let k = g.get_key_value(key).map(|(k, _)| k as *const K)?;
        let v = g.get_mut(key).map(|v| v as *mut V)?;
        Some(RefMut { _g: g, k, v })
    }

    pub fn insert(&self, key: K, value: V) -> Option<V> {
        let i = self.shard_of(&key);
        self.shards[i].write().unwrap_or_else(|e| e.into_inner()).insert(key, value)
    }

    pub fn remove<Q>(&self, key: &Q) -> Option<(K, V)>
    where
        K: std::borrow::Borrow<Q>,
        Q: Ord + Hash + ?Sized,
    {
        self.shards[self.shard_of(key)].write().unwrap_or_else(|e| e.into_inner()).remove_entry(key)
    }

    pub fn contains_key<Q>(&self, key: &Q) -> bool
    where
        K: std::borrow::Borrow<Q>,
        Q: Ord + Hash + ?Sized,
    {
        self.shards[self.shard_of(key)].read().unwrap_or_else(|e| e.into_inner()).contains_key(key)
    }

    pub fn len(&self) -> usize {
        (0..self.n()).map(|i| self.shards[i].read().unwrap_or_else(|e| e.into_inner()).len()).sum()
    }

    pub fn is_empty(&self) -> bool {
        self.len() == 0
    }

    pub fn clear(&self) {
        for i in 0..self.n() {
            self.shards[i].write().unwrap_or_else(|e| e.into_inner()).clear();
        }
    }

    pub fn retain(&self, mut f: impl FnMut(&K, &mut V) -> bool) {
        for i in 0..self.n() {
            self.shards[i].write().unwrap_or_else(|e| e.into_inner()).retain(|k, v| f(k, v));
        }
    }

    pub fn iter(&self) -> Iter<'_, K, V> {
        Iter { map: self, shard: 0, cur: None }
    }

    pub fn with_capacity(_n: usize) -> Self {
        Self::new()
    }

    pub fn try_get<Q>(&self, key: &Q) -> try_result::TryResult<Ref<'_, K, V>>
    where
        K: std::borrow::Borrow<Q>,
        Q: Ord + Hash + ?Sized,
    {
        let g = match self.shards[self.shard_of(key)].try_read() {
            Ok(g) => g,
            Err(shuttle::sync::TryLockError::Poisoned(e)) => e.into_inner(),
            Err(shuttle::sync::TryLockError::WouldBlock) => return try_result::TryResult::Locked,
        };
        match g.get_key_value(key).map(|(k, v)| (k as *const K, v as *const V)) {
            Some((k, v)) => try_result::TryResult::Present(Ref { _g: g, k, v }),
            None => try_result::TryResult::Absent,
        }
    }

    pub fn try_get_mut<Q>(&self, key: &Q) -> try_result::TryResult<RefMut<'_, K, V>>
    where
        K: std::borrow::Borrow<Q>,
        Q: Ord + Hash + ?Sized,
    {
        let mut g = match self.shards[self.shard_of(key)].try_write() {
            Ok(g) => g,
            Err(shuttle::sync::TryLockError::Poisoned(e)) => e.into_inner(),
            Err(shuttle::sync::TryLockError::WouldBlock) => return try_result::TryResult::Locked,
        };
        let k = match g.get_key_value(key).map(|(k, _)| k as *const K) {
            Some(k) => k,
            None => return try_result::TryResult::Absent,
        };
        let v = g.get_mut(key).map(|v| v as *mut V).expect("present");
        try_result::TryResult::Present(RefMut { _g: g, k, v })
    }

    pub fn remove_if<Q>(&self, key: &Q, f: impl FnOnce(&K, &V) -> bool) -> Option<(K, V)>
    where
        K: std::borrow::Borrow<Q>,
        Q: Ord + Hash + ?Sized,
    {
        let mut g = self.shards[self.shard_of(key)].write().unwrap_or_else(|e| e.into_inner());
        let hit = g.get_key_value(key).map_or(false, |(k, v)| f(k, v));
        if hit {
            g.remove_entry(key)
        } else {
            None
        }
    }

    pub fn alter<Q>(&self, key: &Q, f: impl FnOnce(&K, V) -> V)
    where
        K: std::borrow::Borrow<Q> + Clone,
        Q: Ord + Hash + ?Sized,
    {
        let mut g = self.shards[self.shard_of(key)].write().unwrap_or_else(|e| e.into_inner());
        if let Some((k, v)) = g.remove_entry(key) {
            let nv = f(&k, v);
            g.insert(k, nv);
        }
    }

    pub fn iter_mut(&self) -> IterMut<'_, K, V> {
        IterMut { map: self, shard: 0, cur: None }
    }

    pub fn entry(&self, key: K) -> Entry<'_, K, V> {
        let g = self.shards[self.shard_of(&key)].write().unwrap_or_else(|e| e.into_inner());
        if g.contains_key(&key) {
            Entry::Occupied(OccupiedEntry { g, key })
        } else {
            Entry::Vacant(VacantEntry { g, key })
        }
    }
}

pub enum Entry<'a, K, V> {
    Occupied(OccupiedEntry<'a, K, V>),
    Vacant(VacantEntry<'a, K, V>),
}

pub struct OccupiedEntry<'a, K, V> {
    g: RwLockWriteGuard<'a, BTreeMap<K, V>>,
    key: K,
}

pub struct VacantEntry<'a, K, V> {
    g: RwLockWriteGuard<'a, BTreeMap<K, V>>,
    key: K,
}

impl<'a, K: Ord + Hash + Eq + Clone, V> Entry<'a, K, V> {
    pub fn key(&self) -> &K {
        match self {
            Entry::Occupied(e) => &e.key,
            Entry::Vacant(e) => &e.key,
        }
    }
    pub fn and_modify(mut self, f: impl FnOnce(&mut V)) -> Self {
        if let Entry::Occupied(e) = &mut self {
            if let Some(v) = e.g.get_mut(&e.key) {
                f(v);
            }
        }
        self
    }
    pub fn or_insert(self, value: V) -> RefMut<'a, K, V> {
        self.or_insert_with(|| value)
    }
    pub fn or_default(self) -> RefMut<'a, K, V>
    where
        V: Default,
    {
        self.or_insert_with(V::default)
    }
    pub fn or_insert_with(self, f: impl FnOnce() -> V) -> RefMut<'a, K, V> {
        match self {
            Entry::Occupied(e) => e.into_ref(),
            Entry::Vacant(e) => e.insert(f()),
        }
    }
}

impl<'a, K: Ord + Hash + Eq + Clone, V> OccupiedEntry<'a, K, V> {
    pub fn key(&self) -> &K {
        &self.key
    }
    pub fn get(&self) -> &V {
        self.g.get(&self.key).expect("occupied")
    }
    pub fn get_mut(&mut self) -> &mut V {
        self.g.get_mut(&self.key).expect("occupied")
    }
    pub fn insert(&mut self, v: V) -> V {
        self.g.insert(self.key.clone(), v).expect("occupied")
    }
    pub fn remove(mut self) -> V {
        self.g.remove(&self.key).expect("occupied")
    }
    pub fn remove_entry(mut self) -> (K, V) {
        self.g.remove_entry(&self.key).expect("occupied")
    }
    pub fn into_ref(mut self) -> RefMut<'a, K, V> {
        let k = self.g.get_key_value(&self.key).map(|(k, _)| k as *const K).expect("occupied");
        let v = self.g.get_mut(&self.key).map(|v| v as *mut V).expect("occupied");
        RefMut { _g: self.g, k, v }
    }
}

impl<'a, K: Ord + Hash + Eq + Clone, V> VacantEntry<'a, K, V> {
    pub fn key(&self) -> &K {
        &self.key
    }
    pub fn insert(mut self, v: V) -> RefMut<'a, K, V> {
        self.g.insert(self.key.clone(), v);
        let k = self.g.get_key_value(&self.key).map(|(k, _)| k as *const K).expect("inserted");
        let v = self.g.get_mut(&self.key).map(|v| v as *mut V).expect("inserted");
        RefMut { _g: self.g, k, v }
    }
}

type HeldMut<'a, K, V> = Rc<std::cell::RefCell<RwLockWriteGuard<'a, BTreeMap<K, V>>>>;

pub struct IterMut<'a, K, V> {
    map: &'a DashMap<K, V>,
    shard: usize,
    cur: Option<(HeldMut<'a, K, V>, std::vec::IntoIter<(*const K, *mut V)>)>,
}

pub struct RefMutMulti<'a, K, V> {
    _g: HeldMut<'a, K, V>,
    k: *const K,
    v: *mut V,
}
impl<K, V> RefMutMulti<'_, K, V> {
    pub fn key(&self) -> &K {
        unsafe { &*self.k }
    }
    pub fn value(&self) -> &V {
        unsafe { &*self.v }
    }
    pub fn value_mut(&mut self) -> &mut V {
        unsafe { &mut *self.v }
    }
}
impl<K, V> Deref for RefMutMulti<'_, K, V> {
    type Target = V;
    fn deref(&self) -> &V {
        self.value()
    }
}
impl<K, V> DerefMut for RefMutMulti<'_, K, V> {
    fn deref_mut(&mut self) -> &mut V {
        self.value_mut()
    }
}

impl<'a, K: Ord + Hash + Eq, V> Iterator for IterMut<'a, K, V> {
    type Item = RefMutMulti<'a, K, V>;
    fn next(&mut self) -> Option<Self::Item> {
        loop {
            if let Some((g, it)) = &mut self.cur {
                if let Some((k, v)) = it.next() {
                    return Some(RefMutMulti { _g: Rc::clone(g), k, v });
                }
                self.cur = None;
            }
            if self.shard >= self.map.n() {
                return None;
            }
            let mut g = self.map.shards[self.shard].write().unwrap_or_else(|e| e.into_inner());
            self.shard += 1;
            let items: Vec<(*const K, *mut V)> = g.iter_mut().map(|(k, v)| (k as *const K, v as *mut V)).collect();
            self.cur = Some((Rc::new(std::cell::RefCell::new(g)), items.into_iter()));
        }
    }
}

pub struct Ref<'a, K, V> {
    _g: RwLockReadGuard<'a, BTreeMap<K, V>>,
    k: *const K,
    v: *const V,
}
impl<K, V> Ref<'_, K, V> {
    pub fn key(&self) -> &K {
        unsafe { &*self.k }
    }
    pub fn value(&self) -> &V {
        unsafe { &*self.v }
    }
    pub fn pair(&self) -> (&K, &V) {
        (self.key(), self.value())
    }
}
impl<K, V> Deref for Ref<'_, K, V> {
    type Target = V;
    fn deref(&self) -> &V {
        self.value()
    }
}

pub struct RefMut<'a, K, V> {
    _g: RwLockWriteGuard<'a, BTreeMap<K, V>>,
    k: *const K,
    v: *mut V,
}
impl<K, V> RefMut<'_, K, V> {
    pub fn key(&self) -> &K {
        unsafe { &*self.k }
    }
    pub fn value(&self) -> &V {
        unsafe { &*self.v }
    }
    pub fn value_mut(&mut self) -> &mut V {
        unsafe { &mut *self.v }
    }
}
impl<K, V> Deref for RefMut<'_, K, V> {
    type Target = V;
    fn deref(&self) -> &V {
        self.value()
    }
}
impl<K, V> DerefMut for RefMut<'_, K, V> {
    fn deref_mut(&mut self) -> &mut V {
        self.value_mut()
    }
}

type Held<'a, K, V> = Rc<RwLockReadGuard<'a, BTreeMap<K, V>>>;

pub struct Iter<'a, K, V> {
    map: &'a DashMap<K, V>,
    shard: usize,
    cur: Option<(Held<'a, K, V>, std::vec::IntoIter<(*const K, *const V)>)>,
}

pub struct RefMulti<'a, K, V> {
    _g: Held<'a, K, V>,
    k: *const K,
    v: *const V,
}
impl<K, V> RefMulti<'_, K, V> {
    pub fn key(&self) -> &K {
        unsafe { &*self.k }
    }
    pub fn value(&self) -> &V {
        unsafe { &*self.v }
    }
    pub fn pair(&self) -> (&K, &V) {
        (self.key(), self.value())
    }
}
impl<K, V> Deref for RefMulti<'_, K, V> {
    type Target = V;
    fn deref(&self) -> &V {
        self.value()
    }
}

impl<'a, K: Ord + Hash + Eq, V> Iterator for Iter<'a, K, V> {
    type Item = RefMulti<'a, K, V>;
    fn next(&mut self) -> Option<Self::Item> {
        loop {
            if let Some((g, it)) = &mut self.cur {
                if let Some((k, v)) = it.next() {
                    return Some(RefMulti { _g: Rc::clone(g), k, v });
                }
                self.cur = None;
            }
            if self.shard >= self.map.n() {
                return None;
            }
            let g = self.map.shards[self.shard].read().unwrap_or_else(|e| e.into_inner());
            self.shard += 1;
            let items: Vec<(*const K, *const V)> = g.iter().map(|(k, v)| (k as *const K, v as *const V)).collect();
            self.cur = Some((Rc::new(g), items.into_iter()));
        }
    }
}
