//! Engine SCHED: generated multi-threaded programs over real cachelito code (macro-generated
//! corpus functions, or core caches built directly) executed under shuttle's controlled
//! scheduler on the lock shims; oracles inside the execution and over the recorded history.

use crate::corpus::{FnSpec, SPECS};
use crate::vals::*;
use crate::world::{self, Script};
use cachelito_core::verif_seams as seams;
use cachelito_core::{AsyncGlobalCache, CacheEntry, CacheStats, EvictionPolicy, GlobalCache};
use serde::{Deserialize, Serialize};
use simcore::model::*;
use simcore::rng::{mix, Rng};
use std::collections::{BTreeMap, BTreeSet, HashMap, VecDeque};
use std::sync::atomic::{AtomicU64, Ordering};
use std::sync::{Arc, Mutex as StdMutex};

#[derive(Clone, Debug, PartialEq, Serialize, Deserialize)]
pub enum SOp {
    Call { f: u16, k: Key },
    InvTag(String),
    InvEvent(String),
    InvDep(String),
    InvName(String),
    InvWith { name: String, mask: u8 },
    InvAllWith(Vec<(u16, u8)>),
    StatsGet(String),
    StatsReset(String),
    StatsList,
    Adv(i64),
    // L1 programs
    Get(Key),
    Put { k: Key, size: u32 },
    Clear,
}

#[derive(Clone, Debug, PartialEq, Serialize, Deserialize)]
pub enum Kind {
    /// corpus functions called from several threads
    L2,
    /// one core cache (sync global or async) shared by several threads
    L1(Params),
    /// single-threaded registration scenario (C12 "used at least once")
    Reg,
}

#[derive(Clone, Debug, PartialEq, Serialize, Deserialize)]
pub struct SCase {
    pub kind: Kind,
    pub fns: Vec<u16>,
    pub threads: Vec<Vec<SOp>>,
    pub shards: u8,
    pub salt: u64,
    pub fastrand_seed: u64,
    pub probe: bool,
    /// control run: the threads' programs are executed one after the other on one thread
    #[serde(default)]
    pub sequential: bool,
    /// order in which a control run executes the threads' programs (empty = 0, 1, 2, ...)
    #[serde(default)]
    pub order: Vec<usize>,
    /// sequential prefix executed before the threads start (C13: the cache is filled first, so that
    /// the concurrent part consists of hits and conditional invalidations only)
    #[serde(default)]
    pub warm: Vec<SOp>,
}

#[derive(Clone, Debug, PartialEq, Serialize, Deserialize)]
pub struct Sched {
    pub pct_depth: u8, // 0 = uniform random
    pub seed: u64,
}

pub fn spec(id: u16) -> &'static FnSpec {
    &SPECS[id as usize]
}
pub fn registered(s: &FnSpec) -> bool {
    s.flavour != Flavour::Thread
}
pub fn has_meta(s: &FnSpec) -> bool {
    !(s.tags.is_empty() && s.events.is_empty() && s.deps.is_empty())
}

/// Payload size of key k of function f in concurrent phases: a function of (salt, f, k) only, so
/// the footprint of whatever is stored under a key is known without reading it.
pub fn size_of_key(salt: u64, f: u16, k: Key, max_memory: Option<usize>) -> u32 {
    match max_memory {
        None => (mix(&[salt, f as u64, k as u64]) % 6) as u32,
        Some(m) => {
            let m = m as u64;
            let c = [m / 8, m / 4, m / 3, m / 2, m.saturating_sub(64), m + 1];
            c[(mix(&[salt, f as u64, k as u64]) % c.len() as u64) as usize] as u32
        }
    }
}

fn script_for(salt: u64, s: &FnSpec, k: Key) -> Script {
    let h = mix(&[salt, 77, s.id as u64, k as u64]);
    Script {
        err: s.is_result && h % 5 == 0,
        size: size_of_key(salt, s.id, k, s.max_memory),
        shape: 0,
        dur_ns: 0,
        gates: 1,
        inv_verdict: h % 7 == 1,
        cif_verdict: h % 4 != 2,
    }
}

// ---------------------------------------------------------------------------------------
// what an execution reports back to the worker (outside shuttle)

#[derive(Clone, Debug, Default)]
pub struct CallEv {
    pub f: u16,
    pub k: Key,
    pub invoke: u64,
    pub ret: u64,
    pub executed: bool,
    /// stamp of the returned value
    pub stamp: u64,
}

#[derive(Clone, Debug)]
pub struct InvEv {
    pub op: SOp,
    pub invoke: u64,
    pub ret: u64,
}

#[derive(Default)]
pub struct Report {
    pub calls: Vec<CallEv>,
    pub invs: Vec<InvEv>,
    pub counters: BTreeMap<String, u64>,
    pub classes: BTreeSet<String>,
    pub steps: u64,
}

pub static REPORT: StdMutex<Option<Report>> = StdMutex::new(None);
static EVT: AtomicU64 = AtomicU64::new(0);

fn rep<T>(f: impl FnOnce(&mut Report) -> T) -> T {
    let mut g = REPORT.lock().unwrap_or_else(|e| e.into_inner());
    if g.is_none() {
        *g = Some(Report::default());
    }
    f(g.as_mut().unwrap())
}
fn count(k: &str) {
    rep(|r| *r.counters.entry(k.to_string()).or_insert(0) += 1);
}

/// Oracle failure inside an execution: panics with a parsable message.
fn fail(clause: &str, owners: &[&str], detail: String) -> ! {
    panic!("CLAUSE|{}|{}|{}", clause, owners.join(","), detail)
}

// ---------------------------------------------------------------------------------------
// key strings of every (function, argument tuple), learnt once per process

pub static KEYSTR: StdMutex<Option<HashMap<(u16, String), Key>>> = StdMutex::new(None);

fn list_keys(reg_name: &str) -> Option<BTreeSet<String>> {
    let seen = std::cell::RefCell::new(BTreeSet::new());
    let found = cachelito_core::invalidate_with(reg_name, |k: &str| {
        seen.borrow_mut().insert(k.to_string());
        false
    });
    if found {
        Some(seen.into_inner())
    } else {
        None
    }
}

fn setup_execution(salt: u64, shards: u8, fastrand_seed: u64) {
    cachelito_core::InvalidationRegistry::global().clear();
    seams::set_now_ns(0);
    seams::set_sched_point(|| shuttle::thread::sleep(std::time::Duration::ZERO));
    dashmap::SHARDS.store(shards.max(1) as usize, Ordering::Relaxed);
    dashmap::SALT.store(salt, Ordering::Relaxed);
    fastrand::seed(fastrand_seed);
    world::reset_run(salt);
    world::set_task_hook(|| {
        let id: usize = shuttle::current::me().into();
        id as u64 + 1
    });
    EVT.store(0, Ordering::Relaxed);
}

pub fn init_tables() {
    world::with(|w| {
        for s in SPECS.iter() {
            for k in 0..s.nkeys {
                w.reprs.insert((s.id, (s.repr)(k)), k);
            }
        }
    });
}

/// One single-threaded shuttle execution that calls every (function, tuple) once and lists the key.
pub fn calibrate() {
    init_tables();
    let runner = shuttle::Runner::new(shuttle::scheduler::RandomScheduler::new_from_seed(1, 1), quiet_config(5_000_000));
    runner.run(|| {
        setup_execution(0, 4, 1);
        let mut map = HashMap::new();
        for s in SPECS.iter().filter(|s| registered(s)) {
            for k in 0..s.nkeys {
                // nested bodies may have left entries here while other functions were calibrated
                cachelito_core::invalidate_with(s.reg_name, |_| true);
                world::set_plan(s.id, k, Script { cif_verdict: true, ..Default::default() });
                let _ = (s.call)(k);
                if let Some(keys) = list_keys(s.reg_name) {
                    // the one key not seen for a smaller tuple (recursive bodies store smaller tuples too)
                    let fresh: Vec<String> = keys.into_iter().filter(|x| !map.contains_key(&(s.id, x.clone()))).collect();
                    if fresh.len() == 1 {
                        map.insert((s.id, fresh.into_iter().next().unwrap()), k);
                    }
                }
                cachelito_core::invalidate_with(s.reg_name, |_| true);
            }
        }
        for s in SPECS.iter().filter(|s| registered(s)) {
            cachelito_core::invalidate_with(s.reg_name, |_| true);
        }
        *KEYSTR.lock().unwrap() = Some(map);
    });
}

fn key_of_str(f: u16, s: &str) -> Option<Key> {
    KEYSTR.lock().unwrap().as_ref().and_then(|m| m.get(&(f, s.to_string())).cloned())
}

pub fn quiet_config(max_steps: usize) -> shuttle::Config {
    let mut c = shuttle::Config::new();
    c.failure_persistence = shuttle::FailurePersistence::None;
    c.max_steps = shuttle::MaxSteps::FailAfter(max_steps);
    c.silence_warnings = true;
    c.stack_size = 0x40000;
    c
}

// ---------------------------------------------------------------------------------------
// L1 storage shared by the simulated threads (execution-scoped through the Lazy shim)

type V1 = (u64, String);
static G_MAP: once_cell::sync::Lazy<parking_lot::RwLock<HashMap<String, CacheEntry<V1>>>> = once_cell::sync::Lazy::new(|| parking_lot::RwLock::new(HashMap::new()));
static G_ORDER: once_cell::sync::Lazy<parking_lot::Mutex<VecDeque<String>>> = once_cell::sync::Lazy::new(|| parking_lot::Mutex::new(VecDeque::new()));
static G_STATS: once_cell::sync::Lazy<CacheStats> = once_cell::sync::Lazy::new(CacheStats::new);
static A_MAP: once_cell::sync::Lazy<dashmap::DashMap<String, (V1, u64, u64)>> = once_cell::sync::Lazy::new(dashmap::DashMap::new);
static A_ORDER: once_cell::sync::Lazy<parking_lot::Mutex<VecDeque<String>>> = once_cell::sync::Lazy::new(|| parking_lot::Mutex::new(VecDeque::new()));
static A_STATS: once_cell::sync::Lazy<CacheStats> = once_cell::sync::Lazy::new(CacheStats::new);

fn pol(p: Policy) -> EvictionPolicy {
    match p {
        Policy::Fifo => EvictionPolicy::FIFO,
        Policy::Lru => EvictionPolicy::LRU,
        Policy::Lfu => EvictionPolicy::LFU,
        Policy::Arc => EvictionPolicy::ARC,
        Policy::Random => EvictionPolicy::Random,
        Policy::Tlru => EvictionPolicy::TLRU,
    }
}

fn l1_key(k: Key) -> String {
    format!("k{k}")
}

static L1_STAMP: AtomicU64 = AtomicU64::new(0);
/// stamp -> key it was stored under (L1 programs)
static L1_OWNER: StdMutex<Option<HashMap<u64, Key>>> = StdMutex::new(None);

fn l1_op(p: &Params, op: &SOp) {
    let sync = p.flavour == Flavour::Sync;
    match op {
        SOp::Get(k) => {
            let r: Option<V1> = if sync {
                GlobalCache::new(&G_MAP, &G_ORDER, p.limit, p.max_memory, pol(p.policy), p.ttl, p.weight, &G_STATS).get(&l1_key(*k))
            } else {
                AsyncGlobalCache::new(&*A_MAP, &*A_ORDER, p.limit, p.max_memory, pol(p.policy), p.ttl, p.weight, &*A_STATS).get(&l1_key(*k))
            };
            if let Some(v) = r {
                let owner = L1_OWNER.lock().unwrap().as_ref().and_then(|m| m.get(&v.0).cloned());
                if owner != Some(*k) {
                    fail("wrong_value", &["C18", "C01"], format!("get({}) returned a value stored under key {:?} [{}]", l1_key(*k), owner, p.short()));
                }
                count("probe.concurrent_hit");
            }
        }
        SOp::Put { k, size } => {
            let stamp = L1_STAMP.fetch_add(1, Ordering::Relaxed) + 1;
            L1_OWNER.lock().unwrap().get_or_insert_with(HashMap::new).insert(stamp, *k);
            let v: V1 = <V1 as HVal>::make(stamp, *size as usize, 0);
            if sync {
                let c = GlobalCache::new(&G_MAP, &G_ORDER, p.limit, p.max_memory, pol(p.policy), p.ttl, p.weight, &G_STATS);
                if p.max_memory.is_some() { c.insert_with_memory(&l1_key(*k), v) } else { c.insert(&l1_key(*k), v) }
            } else {
                let c = AsyncGlobalCache::new(&*A_MAP, &*A_ORDER, p.limit, p.max_memory, pol(p.policy), p.ttl, p.weight, &*A_STATS);
                if p.max_memory.is_some() { c.insert_with_memory(&l1_key(*k), v) } else { c.insert(&l1_key(*k), v) }
            }
        }
        SOp::Clear => {
            if sync {
                GlobalCache::<V1>::new(&G_MAP, &G_ORDER, p.limit, p.max_memory, pol(p.policy), p.ttl, p.weight, &G_STATS).clear();
                count("fault.clear_racing");
            }
        }
        SOp::Adv(dt) => {
            seams::advance_ns(*dt);
            count("fault.clock_step_concurrent");
            rep(|r| *r.counters.entry("sim_ns".to_string()).or_insert(0) += dt.unsigned_abs());
        }
        _ => {}
    }
}

fn l1_quiescence(p: &Params) {
    let sync = p.flavour == Flavour::Sync;
    let (entries, queue): (BTreeMap<String, (u64, usize)>, Vec<String>) = if sync {
        (G_MAP.read().iter().map(|(k, e)| (k.clone(), (e.value.0, HVal::fp(&e.value)))).collect(), G_ORDER.lock().iter().cloned().collect())
    } else {
        (A_MAP.iter().map(|e| (e.key().clone(), (e.value().0 .0, HVal::fp(&e.value().0)))).collect(), A_ORDER.lock().iter().cloned().collect())
    };
    if let Some(n) = p.limit {
        if entries.len() > n {
            fail("limit_exceeded_after_concurrency", &["C18", "C04"], format!("{} entries at quiescence, limit {n}: {:?} queue {:?} [{}]", entries.len(), entries.keys(), queue, p.short()));
        }
    }
    if let Some(m) = p.max_memory {
        let total: usize = entries.values().map(|x| x.1).sum();
        if total > m {
            fail("memory_exceeded_after_concurrency", &["C18"], format!("{total} bytes at quiescence, max_memory {m} [{}]", p.short()));
        }
    }
    for (k, (stamp, _)) in &entries {
        let owner = L1_OWNER.lock().unwrap().as_ref().and_then(|m| m.get(stamp).cloned());
        if owner.map(l1_key).as_deref() != Some(k.as_str()) {
            fail("wrong_value", &["C18", "C01"], format!("key {k} holds a value stored under {:?} [{}]", owner, p.short()));
        }
        if (p.limit.is_some() || p.max_memory.is_some()) && !queue.contains(k) {
            fail("untracked_entry", &["C18"], format!("key {k} is stored but not in the eviction queue {:?}: it can never be evicted [{}]", queue, p.short()));
        }
    }
    let orphans = queue.iter().filter(|k| !entries.contains_key(*k)).count();
    if orphans > 0 {
        count("probe.queue_orphans_tolerated");
    }
}

// ---------------------------------------------------------------------------------------
// L2 operations inside simulated threads

fn l2_op(case: &SCase, op: &SOp) {
    match op {
        SOp::Call { f, k } => {
            let s = spec(*f);
            let n0 = world::with(|w| w.execs.len());
            let invoke = EVT.fetch_add(1, Ordering::Relaxed);
            let r = (s.call)(*k);
            let ret = EVT.fetch_add(1, Ordering::Relaxed);
            let owner = world::with(|w| w.execs.iter().find(|e| e.stamp == r.stamp).map(|e| (e.fn_id, e.k)));
            if owner != Some((*f, *k)) {
                fail("wrong_value", &["C18", "C01"], format!("call {}({k}) [{}] returned a value produced by {:?}", s.fn_name, s.attrs, owner));
            }
            // did *this* call run the body? its own execution record is newer than n0 and carries the returned stamp
            let me = world::current_task();
            let executed = world::with(|w| w.execs[n0.min(w.execs.len())..].iter().any(|e| e.stamp == r.stamp && e.task == me));
            rep(|rp| rp.calls.push(CallEv { f: *f, k: *k, invoke, ret, executed, stamp: r.stamp }));
        }
        SOp::InvTag(t) => {
            let invoke = EVT.fetch_add(1, Ordering::Relaxed);
            cachelito_core::invalidate_by_tag(t);
            let ret = EVT.fetch_add(1, Ordering::Relaxed);
            rep(|rp| rp.invs.push(InvEv { op: op.clone(), invoke, ret }));
            count("fault.group_invalidation");
        }
        SOp::InvEvent(t) => {
            let invoke = EVT.fetch_add(1, Ordering::Relaxed);
            cachelito_core::invalidate_by_event(t);
            let ret = EVT.fetch_add(1, Ordering::Relaxed);
            rep(|rp| rp.invs.push(InvEv { op: op.clone(), invoke, ret }));
            count("fault.group_invalidation");
        }
        SOp::InvDep(t) => {
            let invoke = EVT.fetch_add(1, Ordering::Relaxed);
            cachelito_core::invalidate_by_dependency(t);
            let ret = EVT.fetch_add(1, Ordering::Relaxed);
            rep(|rp| rp.invs.push(InvEv { op: op.clone(), invoke, ret }));
            count("fault.group_invalidation");
        }
        SOp::InvName(t) => {
            let invoke = EVT.fetch_add(1, Ordering::Relaxed);
            cachelito_core::invalidate_cache(t);
            let ret = EVT.fetch_add(1, Ordering::Relaxed);
            rep(|rp| rp.invs.push(InvEv { op: op.clone(), invoke, ret }));
            count("fault.group_invalidation");
        }
        SOp::InvWith { name, mask } => {
            let f = case.fns.iter().cloned().find(|f| spec(*f).reg_name == name);
            let m = *mask;
            let invoke = EVT.fetch_add(1, Ordering::Relaxed);
            cachelito_core::invalidate_with(name, |k: &str| f.and_then(|f| key_of_str(f, k)).map_or(false, |x| m & (1 << x) != 0));
            let ret = EVT.fetch_add(1, Ordering::Relaxed);
            rep(|rp| rp.invs.push(InvEv { op: op.clone(), invoke, ret }));
            count("fault.invalidate_with");
        }
        SOp::InvAllWith(masks) => {
            cachelito_core::invalidate_all_with(|name: &str, k: &str| {
                masks.iter().find(|(f, _)| spec(*f).reg_name == name).map_or(false, |(f, m)| key_of_str(*f, k).map_or(false, |x| m & (1 << x) != 0))
            });
            count("fault.invalidate_all_with");
        }
        SOp::StatsGet(n) => {
            let _ = cachelito_core::stats_registry::get(n);
            count("fault.stats_query");
        }
        SOp::StatsReset(n) => {
            let _ = cachelito_core::stats_registry::reset(n);
            count("fault.stats_reset");
        }
        SOp::StatsList => {
            let _ = cachelito_core::stats_registry::list();
            count("fault.stats_query");
        }
        SOp::Adv(dt) => {
            seams::advance_ns(*dt);
            count("fault.clock_step_concurrent");
            rep(|r| *r.counters.entry("sim_ns".to_string()).or_insert(0) += dt.unsigned_abs());
        }
        _ => {}
    }
}

fn fp_of_key(case: &SCase, s: &FnSpec, k: Key) -> usize {
    // footprint of the value a body produces for this key (same construction as the body)
    let sc = script_for(case.salt, s, k);
    crate::corpus::fp_probe(s.id, sc.err, sc.size as usize)
}

/// number of body executions recorded when the sequential prefix (`SCase::warm`) had finished
static WARM_EXECS: std::sync::atomic::AtomicUsize = std::sync::atomic::AtomicUsize::new(0);

/// C13 after a concurrent phase that stored nothing (only hits and conditional invalidations ran
/// next to each other): the bookkeeping must be as if the removed entries had never been stored,
/// so filling the cache up to its limit with keys never used before must not evict anything.
/// (A store racing with an invalidation may legitimately leave a queue key without an entry -
/// tolerated by C18's text - which is why executions in the concurrent phase switch this off.)
fn c13_fill_probe(case: &SCase, f: u16, s: &FnSpec, live: &BTreeSet<Key>, strs: &BTreeSet<String>) {
    let n = match s.limit {
        Some(n) => n,
        None => return,
    };
    if s.ttl.is_some() || s.max_memory.is_some() || s.has_inv_on || s.has_cache_if || s.is_result || s.family == "nested" {
        return;
    }
    let w0 = WARM_EXECS.load(Ordering::Relaxed);
    if world::with(|w| w.execs.iter().skip(w0).any(|e| e.fn_id == f)) {
        count("probe.c13_fill_skipped_concurrent_store");
        return;
    }
    let used: BTreeSet<Key> = case.warm.iter().chain(case.threads.iter().flatten()).filter_map(|op| match op {
        SOp::Call { f: g, k } if *g == f => Some(*k),
        _ => None,
    }).collect();
    let fresh: Vec<Key> = (0..s.nkeys).filter(|k| !used.contains(k) && !live.contains(k)).collect();
    let room = n.saturating_sub(live.len());
    let mut expect: BTreeSet<String> = strs.clone();
    for k in fresh.into_iter().take(room) {
        let _ = (s.call)(k);
        let now = list_keys(s.reg_name).unwrap_or_default();
        let lost: Vec<&String> = expect.iter().filter(|x| !now.contains(*x)).collect();
        if !lost.is_empty() {
            fail(
                "early_eviction_after_invalidation",
                &["C13"],
                format!("{} [{}]: after hits and conditional invalidations (no store ran concurrently) {} entries were cached; storing the fresh key {k} evicted {lost:?} although the limit is {n}", s.fn_name, s.attrs, expect.len()),
            );
        }
        expect = now;
        count("probe.c13_fill_store_after_invalidation");
    }
}

fn l2_quiescence(case: &SCase, prop: &str) {
    for f in &case.fns {
        let s = spec(*f);
        if !registered(s) {
            continue;
        }
        let strs = match list_keys(s.reg_name) {
            Some(x) => x,
            None => continue, // never called in this execution
        };
        let mut keys = BTreeSet::new();
        for st in &strs {
            match key_of_str(*f, st) {
                Some(k) => {
                    keys.insert(k);
                }
                None => fail("phantom_key", &["C18"], format!("{} lists key {st:?} at quiescence", s.fn_name)),
            }
        }
        if let Some(n) = s.limit {
            if keys.len() > n {
                fail("limit_exceeded_after_concurrency", &["C18", "C04"], format!("{} [{}] holds {} entries at quiescence, limit {n}: {:?}", s.fn_name, s.attrs, keys.len(), strs));
            }
        }
        if let Some(m) = s.max_memory {
            let total: usize = keys.iter().map(|k| fp_of_key(case, s, *k)).sum();
            if total > m {
                fail("memory_exceeded_after_concurrency", &["C18"], format!("{} [{}] holds {total} bytes at quiescence, max_memory {m}: {:?}", s.fn_name, s.attrs, strs));
            }
        }
        if prop == "C13" && !case.warm.is_empty() {
            c13_fill_probe(case, *f, s, &keys, &strs);
        }
        if !case.probe || s.family == "nested" {
            // (a call of a nested body looks up and stores other tuples too, so "n fresh stores"
            // says nothing about which entries must be gone; the bounds above still apply)
            continue;
        }
        // ---- sequential probe: values, bounds, evictable, expirable, invalidatable
        let all: Vec<Key> = (0..s.nkeys).collect();
        let fresh: Vec<Key> = all.iter().cloned().filter(|k| !keys.contains(k)).collect();
        let small = |k: Key| s.max_memory.map_or(true, |m| fp_of_key(case, s, k) * 2 <= m);
        if let Some(n) = s.limit {
            let cand: Vec<Key> = fresh.iter().cloned().filter(|k| small(*k) && !script_for(case.salt, s, *k).err && script_for(case.salt, s, *k).cif_verdict).collect();
            if cand.len() >= n && !s.has_inv_on {
                for k in cand.iter().take(n) {
                    let r = (s.call)(*k);
                    let owner = world::with(|w| w.execs.iter().find(|e| e.stamp == r.stamp).map(|e| (e.fn_id, e.k)));
                    if owner != Some((*f, *k)) {
                        fail("wrong_value", &["C18", "C01"], format!("probe call {}({k}) returned a value produced by {:?}", s.fn_name, owner));
                    }
                    let now = list_keys(s.reg_name).unwrap_or_default();
                    if now.len() > n {
                        fail("limit_exceeded_after_concurrency", &["C18", "C04"], format!("{} [{}] holds {} entries during the sequential probe, limit {n}: {:?}", s.fn_name, s.attrs, now.len(), now));
                    }
                }
                if matches!(s.policy, Policy::Fifo | Policy::Lru) && s.max_memory.is_none() {
                    let now = list_keys(s.reg_name).unwrap_or_default();
                    let left: Vec<&String> = now.iter().filter(|x| strs.contains(*x)).collect();
                    if !left.is_empty() {
                        fail("unevictable_entry", &["C18"], format!("{} [{}]: after {n} fresh stores the pre-existing entries {left:?} are still cached (they can no longer be evicted)", s.fn_name, s.attrs));
                    }
                    count("probe.evictability_probe");
                }
            }
        }
        if let Some(t) = s.ttl {
            let before = list_keys(s.reg_name).unwrap_or_default();
            seams::advance_ns((t as i64 + 1) * SEC);
            for st in &before {
                if let Some(k) = key_of_str(*f, st) {
                    let n0 = world::with(|w| w.execs.len());
                    let _ = (s.call)(k);
                    let ran = world::with(|w| w.execs.len() > n0);
                    if !ran {
                        fail("unexpirable_entry", &["C18", "C06"], format!("{} [{}]: entry {st:?} is still served {} s after it was stored", s.fn_name, s.attrs, t + 1));
                    }
                }
            }
            count("probe.expirability_probe");
        }
        cachelito_core::invalidate_with(s.reg_name, |_| true);
        let after = list_keys(s.reg_name).unwrap_or_default();
        if !after.is_empty() {
            fail("uninvalidatable_entry", &["C18"], format!("{} [{}]: entries {after:?} survive invalidate_with(all)", s.fn_name, s.attrs));
        }
        let _ = prop;
    }
}

/// History oracles (outside the execution).
pub fn history_checks(case: &SCase, rp: &Report, prop: &str) -> Option<(String, Vec<String>, String)> {
    let only_calls = case.threads.iter().flatten().all(|op| matches!(op, SOp::Call { .. }));
    // C03: once a storing call has returned nobody computes again
    if only_calls {
        for c in rp.calls.iter().filter(|c| c.executed) {
            let s = spec(c.f);
            let plain = s.limit.is_none() && s.ttl.is_none() && s.max_memory.is_none() && !s.has_inv_on && !s.has_cache_if && !s.is_result;
            if !plain {
                continue;
            }
            if let Some(d) = rp.calls.iter().find(|d| d.executed && d.f == c.f && d.k == c.k && d.ret < c.invoke) {
                return Some((
                    "late_execution".into(),
                    vec!["C03".into()],
                    format!("{}({}) ran its body in a call invoked at event {} although a call that executed and stored it had returned at event {} [{}]", s.fn_name, c.k, c.invoke, d.ret, s.attrs),
                ));
            }
        }
    }
    // C04 / C14 under concurrency: while a cache with limit N has seen at most N distinct keys, nothing
    // may be evicted, so a value whose storing call has returned must be served to every later caller
    let calls_and_inv_with = case.threads.iter().flatten().all(|op| matches!(op, SOp::Call { .. } | SOp::InvWith { .. }));
    if calls_and_inv_with {
        let any_inv = !rp.invs.is_empty();
        for c in rp.calls.iter().filter(|c| c.executed) {
            let s = spec(c.f);
            let n = match s.limit {
                Some(n) => n,
                None => continue,
            };
            if s.ttl.is_some() || s.max_memory.is_some() || s.has_inv_on || s.has_cache_if || s.is_result || s.family == "nested" {
                continue;
            }
            let distinct: BTreeSet<Key> = case.warm.iter().chain(case.threads.iter().flatten()).filter_map(|op| match op {
                SOp::Call { f, k } if *f == c.f => Some(*k),
                _ => None,
            }).collect();
            if distinct.len() > n {
                continue;
            }
            // an earlier storing call whose entry no invalidation can have removed: every conditional
            // invalidation that names this key and overlaps or follows the store excuses the re-execution
            let excused = |d: &CallEv| {
                rp.invs.iter().any(|i| match &i.op {
                    SOp::InvWith { name, mask } => name == s.reg_name && mask & (1 << c.k) != 0 && i.ret > d.invoke && i.invoke < c.ret,
                    _ => true,
                })
            };
            if let Some(d) = rp.calls.iter().find(|d| d.executed && d.f == c.f && d.k == c.k && d.ret < c.invoke && !excused(d)) {
                return Some((
                    "evicted_below_limit".into(),
                    if any_inv { vec!["C13".into()] } else { vec!["C04".into(), "C14".into()] },
                    format!("{}({}) [{}] ran its body in a call invoked at event {} although a call that stored it had returned at event {} and the program uses only {} distinct keys (limit {n}): an entry was evicted without overflow", s.fn_name, c.k, s.attrs, c.invoke, d.ret, distinct.len()),
                ));
            }
        }
    }
    // C12 under concurrency: an entry whose storing call had returned before a matching group
    // invalidation was invoked must not be served to a call invoked after that invalidation returned
    for c in rp.calls.iter().filter(|c| !c.executed) {
        let s = spec(c.f);
        if !(registered(s) && has_meta(s)) {
            continue;
        }
        let d = match rp.calls.iter().find(|d| d.executed && d.stamp == c.stamp) {
            Some(d) => d,
            None => continue,
        };
        for i in &rp.invs {
            let m = match &i.op {
                SOp::InvTag(t) => s.tags.contains(&t.as_str()),
                SOp::InvEvent(t) => s.events.contains(&t.as_str()),
                SOp::InvDep(t) => s.deps.contains(&t.as_str()),
                SOp::InvName(t) => s.reg_name == t,
                _ => false,
            };
            if m && d.ret < i.invoke && i.ret < c.invoke {
                return Some((
                    "entry_survived_invalidation".into(),
                    vec!["C12".into()],
                    format!(
                        "{}({}) [{}] was served the value stored by a call that returned at event {} although {:?} (events {}..{}) ran in between and the call was invoked at event {}",
                        s.fn_name, c.k, s.attrs, d.ret, i.op, i.invoke, i.ret, c.invoke
                    ),
                ));
            }
        }
    }
    let _ = prop;
    None
}

// ---------------------------------------------------------------------------------------
// the execution body

pub fn run_case(case: Arc<SCase>, prop: String) {
    setup_execution(case.salt, case.shards, case.fastrand_seed);
    match &case.kind {
        Kind::L2 => {
            for f in &case.fns {
                let s = spec(*f);
                for k in 0..s.nkeys {
                    world::set_plan(*f, k, script_for(case.salt, s, k));
                }
            }
        }
        Kind::L1(_) => {
            L1_STAMP.store(0, Ordering::Relaxed);
            *L1_OWNER.lock().unwrap() = Some(HashMap::new());
        }
        Kind::Reg => {}
    }
    if let Kind::Reg = case.kind {
        reg_scenario(&case);
        return;
    }
    if !case.warm.is_empty() {
        fastrand::seed(mix(&[case.fastrand_seed, 99]));
        for op in &case.warm {
            l2_op(&case, op);
        }
    }
    WARM_EXECS.store(world::with(|w| w.execs.len()), Ordering::Relaxed);
    if case.sequential {
        let order: Vec<usize> = if case.order.is_empty() { (0..case.threads.len()).collect() } else { case.order.clone() };
        for t in order {
            fastrand::seed(mix(&[case.fastrand_seed, t as u64]));
            for op in &case.threads[t] {
                match &case.kind {
                    Kind::L1(p) => l1_op(p, op),
                    _ => l2_op(&case, op),
                }
            }
        }
    }
    let mut hs = Vec::new();
    for t in 0..case.threads.len() {
        if case.sequential {
            break;
        }
        let c = Arc::clone(&case);
        hs.push(shuttle::thread::spawn(move || {
            fastrand::seed(mix(&[c.fastrand_seed, t as u64]));
            for op in &c.threads[t] {
                match &c.kind {
                    Kind::L1(p) => l1_op(p, op),
                    _ => l2_op(&c, op),
                }
            }
        }));
    }
    for h in hs {
        h.join().expect("simulated thread");
    }
    match &case.kind {
        Kind::L1(p) => l1_quiescence(p),
        _ => {
            if prop == "C15" {
                stats_quiescence(&case);
            }
            l2_quiescence(&case, &prop)
        }
    }
}

fn stats_quiescence(case: &SCase) {
    let calls = rep(|r| r.calls.clone());
    for f in &case.fns {
        let s = spec(*f);
        if !registered(s) {
            continue;
        }
        let n_calls = calls.iter().filter(|c| c.f == *f).count() as u64;
        if n_calls == 0 {
            continue;
        }
        let n_exec = world::with(|w| w.execs.iter().filter(|e| e.fn_id == *f).count() as u64);
        let st = match cachelito_core::stats_registry::get(s.reg_name) {
            Some(st) => st,
            None => fail("stats_missing", &["C15"], format!("no statistics under {:?}", s.reg_name)),
        };
        if st.hits() + st.misses() != n_calls {
            fail("stats_lost_update", &["C15"], format!("{} [{}]: hits {} + misses {} != {} calls", s.fn_name, s.attrs, st.hits(), st.misses(), n_calls));
        }
        if !s.has_inv_on && st.misses() != n_exec {
            fail("stats_misses_vs_executions", &["C15"], format!("{} [{}]: misses {} but the body ran {} times", s.fn_name, s.attrs, st.misses(), n_exec));
        }
        count("probe.stats_checked_at_quiescence");
    }
}

/// C12 "used at least once": only the functions called in this execution are registered.
fn reg_scenario(case: &SCase) {
    let mut used: BTreeSet<u16> = BTreeSet::new();
    let mut cached: BTreeMap<u16, BTreeSet<Key>> = BTreeMap::new();
    for op in case.threads.iter().flatten() {
        match op {
            SOp::Call { f, k } => {
                let s = spec(*f);
                world::set_plan(*f, *k, Script { cif_verdict: true, ..Default::default() });
                let _ = (s.call)(*k);
                used.insert(*f);
                cached.entry(*f).or_default().insert(*k);
            }
            SOp::InvTag(_) | SOp::InvEvent(_) | SOp::InvDep(_) | SOp::InvName(_) => {
                let m: Box<dyn Fn(&FnSpec) -> bool> = match op {
                    SOp::InvTag(t) => {
                        let t = t.clone();
                        Box::new(move |s: &FnSpec| s.tags.contains(&t.as_str()))
                    }
                    SOp::InvEvent(t) => {
                        let t = t.clone();
                        Box::new(move |s: &FnSpec| s.events.contains(&t.as_str()))
                    }
                    SOp::InvDep(t) => {
                        let t = t.clone();
                        Box::new(move |s: &FnSpec| s.deps.contains(&t.as_str()))
                    }
                    SOp::InvName(t) => {
                        let t = t.clone();
                        Box::new(move |s: &FnSpec| s.reg_name == t)
                    }
                    _ => unreachable!(),
                };
                let before: BTreeMap<u16, BTreeSet<String>> = used
                    .iter()
                    .filter(|f| registered(spec(**f)))
                    .map(|f| (*f, list_keys(spec(*f).reg_name).unwrap_or_default()))
                    .collect();
                let got = match op {
                    SOp::InvTag(t) => cachelito_core::invalidate_by_tag(t),
                    SOp::InvEvent(t) => cachelito_core::invalidate_by_event(t),
                    SOp::InvDep(t) => cachelito_core::invalidate_by_dependency(t),
                    SOp::InvName(t) => cachelito_core::invalidate_cache(t) as usize,
                    _ => 0,
                };
                let exp = used.iter().filter(|f| registered(spec(**f)) && has_meta(spec(**f)) && m(spec(**f))).count();
                if got != exp {
                    fail("group_count", &["C12"], format!("{op:?} returned {got}; {exp} caches that were used at least once match (used: {:?})", used));
                }
                for f in &used {
                    let s = spec(*f);
                    if !registered(s) {
                        continue;
                    }
                    let strs = list_keys(s.reg_name).unwrap_or_default();
                    if has_meta(s) && m(s) {
                        if !strs.is_empty() {
                            fail("group_not_emptied", &["C12"], format!("after {op:?} cache {} still holds {strs:?}", s.reg_name));
                        }
                        cached.remove(f);
                    } else if Some(&strs) != before.get(f) {
                        fail("collateral_invalidation", &["C13"], format!("{op:?} changed cache {} which does not match", s.reg_name));
                    }
                }
                if exp > 0 {
                    count("probe.group_invalidation_hit_used_cache");
                }
                count("fault.group_invalidation");
            }
            _ => {}
        }
    }
    let unused = case.fns.iter().filter(|f| !used.contains(f)).count();
    if unused > 0 {
        count("probe.universe_function_never_used");
    }
}

// ---------------------------------------------------------------------------------------
// generation

pub const NAMES: [&str; 9] = ["x", "y", "t0", "t1", "e0", "e1", "d0", "d1", "zz"];

pub fn gen_case(prop: &str, seed: u64) -> (SCase, Sched) {
    let mut r = Rng::new(seed);
    // C04 under concurrency: half of the programs use at most `limit` distinct keys (nothing may be
    // evicted), the other half are the general programs of C18 (the limit must hold at quiescence)
    let prop = if prop == "C04" && r.chance(1, 2) { "C18" } else { prop };
    let sched = Sched { pct_depth: if r.chance(1, 2) { 0 } else { r.range(1, 3) as u8 }, seed: r.next_u64() };
    let shards = *r.pick(&[1u8, 2, 4]);
    let salt = r.next_u64();
    let fastrand_seed = r.next_u64();
    if prop == "C12" && r.chance(1, 2) {
        // registration scenario over the invalidation-group family
        let grp: Vec<&FnSpec> = SPECS.iter().filter(|s| s.family == "group" || s.family == "name").filter(|s| registered(s)).collect();
        let mut fns = Vec::new();
        for _ in 0..r.range(3, 6) {
            let s = r.pick(&grp);
            if !fns.contains(&s.id) {
                fns.push(s.id);
            }
        }
        let mut ops = Vec::new();
        for _ in 0..r.range(4, 14) {
            if r.chance(3, 5) {
                let f = *r.pick(&fns);
                // some functions of the universe are deliberately never called
                if f != fns[0] || r.chance(1, 2) {
                    ops.push(SOp::Call { f, k: r.below(spec(f).nkeys as u64) as Key });
                }
            } else {
                let name = if r.chance(1, 3) { spec(*r.pick(&fns)).reg_name.to_string() } else { NAMES[r.below(9) as usize].to_string() };
                ops.push(match r.below(4) {
                    0 => SOp::InvTag(name),
                    1 => SOp::InvEvent(name),
                    2 => SOp::InvDep(name),
                    _ => SOp::InvName(name),
                });
            }
        }
        return (SCase { kind: Kind::Reg, fns, threads: vec![ops], shards, salt, fastrand_seed, probe: false, sequential: false, order: vec![], warm: vec![] }, sched);
    }
    let l1 = matches!(prop, "C18" | "C17" | "C16") && r.chance(1, 3);
    let nthreads = r.range(2, 3) as usize;
    if l1 {
        let p = Params {
            flavour: *r.pick(&[Flavour::Sync, Flavour::Async]),
            policy: *r.pick(&Policy::ALL),
            limit: if r.chance(3, 4) { Some(r.range(1, 3) as usize) } else { None },
            ttl: if r.chance(1, 3) { Some(r.range(1, 2)) } else { None },
            max_memory: if r.chance(1, 4) { Some(120 + r.below(60) as usize) } else { None },
            weight: None,
        };
        let mut p = p;
        if p.limit.is_none() && p.max_memory.is_none() {
            p.limit = Some(2);
        }
        let nkeys = p.limit.unwrap_or(2) as u64 + 2;
        let mut threads = Vec::new();
        for _ in 0..nthreads {
            let mut ops = Vec::new();
            for _ in 0..r.range(2, 6) {
                ops.push(match r.below(10) {
                    0..=3 => SOp::Put { k: r.below(nkeys) as Key, size: *r.pick(&[0u32, 8, 40, 90]) },
                    4..=6 => SOp::Get(r.below(nkeys) as Key),
                    7 => SOp::Clear,
                    8 if p.ttl.is_some() => SOp::Adv(*r.pick(&[SEC, 2 * SEC, SEC / 2])),
                    _ => SOp::Put { k: r.below(nkeys) as Key, size: 0 },
                });
            }
            threads.push(ops);
        }
        return (SCase { kind: Kind::L1(p), fns: vec![], threads, shards, salt, fastrand_seed, probe: true, sequential: false, order: vec![], warm: vec![] }, sched);
    }
    // L2 program
    let pool: Vec<&FnSpec> = SPECS
        .iter()
        .filter(|s| registered(s))
        .filter(|s| match prop {
            "C04" | "C14" | "C13" => s.limit.is_some() && s.ttl.is_none() && s.max_memory.is_none() && !s.has_inv_on && !s.has_cache_if && !s.is_result && s.family != "nested",
            "C03" => s.limit.is_none() && s.ttl.is_none() && s.max_memory.is_none() && !s.has_inv_on && !s.has_cache_if && !s.is_result,
            // nested bodies perform lookups that are not top-level calls of the program
            "C15" => s.family != "nested",
            _ => true,
        })
        .collect();
    let mut fns: Vec<u16> = Vec::new();
    let nf = if prop == "C03" { r.range(1, 2) } else { r.range(1, 3) };
    if prop == "C12" {
        // concurrent group invalidation: caches of the group family (shared tags / events / dependencies)
        let grp: Vec<&&FnSpec> = pool.iter().filter(|s| s.family == "group" && has_meta(s)).collect();
        let first = **r.pick(&grp);
        fns.push(first.id);
        // a partner that shares a name with it, if there is one
        let partners: Vec<&&&FnSpec> = grp
            .iter()
            .filter(|s| s.id != first.id && (s.tags.iter().any(|t| first.tags.contains(t)) || s.events.iter().any(|t| first.events.contains(t)) || s.deps.iter().any(|t| first.deps.contains(t))))
            .collect();
        if !partners.is_empty() {
            fns.push(r.pick(&partners).id);
        }
    }
    while (fns.len() as u64) < nf {
        let s = if prop == "C15" && r.chance(1, 2) {
            let b: Vec<&&FnSpec> = pool.iter().filter(|s| s.ttl.is_some() || s.limit.map_or(false, |n| n <= 2)).collect();
            **r.pick(&b)
        } else if matches!(prop, "C17" | "C18" | "C16") && r.chance(1, 2) {
            // bias towards caches whose stores evict / expire and towards invalidation groups
            let b: Vec<&&FnSpec> = if r.chance(1, 4) {
                // bodies that call other decorated functions or themselves
                pool.iter().filter(|s| s.family == "nested").collect()
            } else {
                pool.iter().filter(|s| s.limit.map_or(false, |n| n <= 2) || has_meta(s) || s.ttl.is_some()).collect()
            };
            **r.pick(&b)
        } else {
            *r.pick(&pool)
        };
        if !fns.contains(&s.id) {
            fns.push(s.id);
        }
    }
    let only_calls = matches!(prop, "C03" | "C15" | "C04" | "C14");
    let mut threads = Vec::new();
    for _ in 0..nthreads {
        let mut ops = Vec::new();
        for _ in 0..r.range(2, 6) {
            let f = *r.pick(&fns);
            let s = spec(f);
            let nk = if matches!(prop, "C04" | "C14" | "C13") {
                // no more distinct keys than the limit: nothing may ever be evicted
                (s.nkeys as u64).min(s.limit.unwrap_or(1) as u64).max(1)
            } else {
                (s.nkeys as u64).min(s.limit.unwrap_or(2) as u64 + 2).max(1)
            };
            if prop == "C15" && s.ttl.is_some() && r.chance(1, 5) {
                // time passes between the calls: expired lookups race with stores
                ops.push(SOp::Adv(*r.pick(&[SEC, 2 * SEC, 3 * SEC])));
            } else if only_calls || r.chance(3, 5) {
                ops.push(SOp::Call { f, k: r.below(nk) as Key });
            } else if prop == "C13" {
                // conditional invalidation of a few of the keys in use
                ops.push(SOp::InvWith { name: s.reg_name.to_string(), mask: (r.below(1 << nk) as u8) });
            } else if prop == "C12" {
                let name = NAMES[r.below(9) as usize].to_string();
                ops.push(match r.below(5) {
                    0 | 1 => SOp::InvTag(s.tags.first().map_or(name, |x| x.to_string())),
                    2 => SOp::InvEvent(s.events.first().map_or(name, |x| x.to_string())),
                    3 => SOp::InvDep(s.deps.first().map_or(name, |x| x.to_string())),
                    _ => SOp::InvName(s.reg_name.to_string()),
                });
            } else {
                let name = if r.chance(1, 2) { s.reg_name.to_string() } else { NAMES[r.below(9) as usize].to_string() };
                ops.push(match r.below(12) {
                    0 => SOp::InvTag(s.tags.first().map_or(name, |x| x.to_string())),
                    1 => SOp::InvEvent(s.events.first().map_or(name, |x| x.to_string())),
                    2 => SOp::InvDep(s.deps.first().map_or(name, |x| x.to_string())),
                    3 => SOp::InvName(s.reg_name.to_string()),
                    4..=6 => SOp::InvWith { name: s.reg_name.to_string(), mask: r.below(256) as u8 },
                    7 => SOp::InvAllWith(fns.iter().map(|f| (*f, r.below(256) as u8)).collect()),
                    8 => SOp::StatsGet(name),
                    9 => SOp::StatsList,
                    10 if prop != "C15" => SOp::StatsReset(s.reg_name.to_string()),
                    _ => {
                        if s.ttl.is_some() {
                            SOp::Adv(*r.pick(&[SEC, 2 * SEC, 3 * SEC]))
                        } else {
                            SOp::Call { f, k: r.below(nk) as Key }
                        }
                    }
                });
            }
        }
        threads.push(ops);
    }
    let mut warm = Vec::new();
    if prop == "C13" && r.chance(1, 2) {
        // fill first, then only hits race with conditional invalidations: one cache, one victim key
        let f = fns[0];
        let s = spec(f);
        let m = (s.limit.unwrap_or(1) as u64).min((s.nkeys as u64).saturating_sub(1));
        if m >= 1 {
            fns.truncate(1);
            for k in 0..m {
                warm.push(SOp::Call { f, k: k as Key });
            }
            let v = r.below(m) as Key;
            threads.clear();
            let mut hits = Vec::new();
            for _ in 0..r.range(1, 2) {
                hits.push(SOp::Call { f, k: v });
            }
            threads.push(hits);
            let mut mask = 1u8 << v;
            if r.chance(1, 3) {
                mask |= 1u8 << (r.below(m) as u8);
            }
            threads.push(vec![SOp::InvWith { name: s.reg_name.to_string(), mask }]);
            if nthreads > 2 {
                let mut other = Vec::new();
                for _ in 0..r.range(1, 3) {
                    other.push(SOp::Call { f, k: r.below(m) as Key });
                }
                threads.push(other);
            }
        }
    }
    (SCase { kind: Kind::L2, fns, threads, shards, salt, fastrand_seed, probe: matches!(prop, "C18"), sequential: false, order: vec![], warm }, sched)
}
