//! Engine POLL (C20) — placeholder until implemented.
use simcore::report::Replay;
use std::collections::BTreeSet;
use std::path::PathBuf;
pub fn run_batch(_prop: &str, _seed: u64, _start: u64, _runs: u64, _dir: &PathBuf, _known: &BTreeSet<String>, _digests: bool) -> i32 { 2 }
pub fn replay(_rp: &Replay, _path: &str, _quiet: bool) -> i32 { 2 }
