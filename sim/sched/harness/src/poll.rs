//! Engine POLL (C20): the simulator is the executor. A victim call of a `#[cache_async]`
//! function is polled by hand up to a chosen await of its body; a seeded program of other calls,
//! invalidations, listings and clock steps runs while it is suspended; then it is resumed or
//! dropped. For every case all poll boundaries x {resume, drop} are taken in turn (fault
//! enumeration over cancellation points). Runs inside a shuttle execution so that a cache lock
//! kept across the await shows up as a re-entrant / blocked acquisition instead of a hang.

use crate::corpus::{FnSpec, SPECS};
use crate::scen::{quiet_config, registered, spec, KEYSTR};
use crate::world::{self, Script};
use cachelito_core::verif_seams as seams;
use serde::{Deserialize, Serialize};
use simcore::check::*;
use simcore::model::*;
use simcore::report::*;
use simcore::rng::{mix, Rng};
use std::collections::{BTreeMap, BTreeSet};
use std::future::Future;
use std::panic::{catch_unwind, AssertUnwindSafe};
use std::path::PathBuf;
use std::sync::Arc;
use std::task::{Context, Poll};

pub const RULE: &str = "one evaluation = one (case, poll boundary, resume|drop) execution: a victim #[cache_async] call with 1-3 awaits is polled by hand up to await i, a seeded program (same-key call, other-key calls, conditional / group invalidation, clock steps, key listings) runs while it is suspended, then the call is resumed to completion or dropped; every boundary x mode of every case is executed. distinct_nontrivial counts distinct (function id, boundary, mode, interleaved operation kinds) tuples";

#[derive(Clone, Debug, PartialEq, Serialize, Deserialize)]
pub enum POp {
    Call { k: Key, err: bool, size: u32, dur_ns: i64, gates: u8, inv: bool, cif: bool },
    Adv(i64),
    InvWith(u8),
    InvName,
    InvTag(String),
    /// a second call is started and polled once (it stays pending if its body awaits)
    SuspendW { k: Key, err: bool, size: u32, dur_ns: i64, gates: u8, inv: bool, cif: bool },
    /// the second pending call is polled to completion
    ResumeW,
    /// the second pending call is dropped
    DropW,
}

#[derive(Clone, Debug, PartialEq, Serialize, Deserialize)]
pub struct PCase {
    pub f: u16,
    pub pre: Vec<POp>,
    pub victim: POp,
    /// number of polls given to the victim before the interleaved program (0 = never polled)
    pub polls: u8,
    pub resume: bool,
    pub during: Vec<POp>,
    pub post: Vec<POp>,
    pub shards: u8,
    pub salt: u64,
}

fn fail(clause: &str, owners: &[&str], detail: String) -> ! {
    panic!("CLAUSE|{}|{}|{}", clause, owners.join(","), detail)
}

fn list_keys(reg_name: &str) -> BTreeSet<String> {
    let seen = std::cell::RefCell::new(BTreeSet::new());
    cachelito_core::invalidate_with(reg_name, |k: &str| {
        seen.borrow_mut().insert(k.to_string());
        false
    });
    seen.into_inner()
}

fn key_of_str(f: u16, s: &str) -> Option<Key> {
    KEYSTR.lock().unwrap().as_ref().and_then(|m| m.get(&(f, s.to_string())).cloned())
}

fn listed(s: &FnSpec) -> BTreeSet<Key> {
    let mut ks = BTreeSet::new();
    for st in list_keys(s.reg_name) {
        match key_of_str(s.id, &st) {
            Some(k) => {
                ks.insert(k);
            }
            None => fail("phantom_key", &["C20"], format!("{} lists unknown key {st:?}", s.fn_name)),
        }
    }
    ks
}

fn stats(s: &FnSpec) -> Option<(u64, u64)> {
    cachelito_core::stats_registry::get(s.reg_name).map(|x| (x.hits(), x.misses()))
}

fn cfg_of(s: &FnSpec) -> FnCfg {
    FnCfg {
        params: Params { flavour: s.flavour, policy: s.policy, limit: s.limit, ttl: s.ttl, max_memory: s.max_memory, weight: s.weight },
        is_result: s.is_result,
        has_inv_on: s.has_inv_on,
        has_cache_if: s.has_cache_if,
    }
}

fn to_c20(mut c: Clause, what: &str) -> Clause {
    if !c.owners.iter().any(|o| o == "C20") {
        c.owners.push("C20".to_string());
    }
    c.detail = format!("{what}: {}", c.detail);
    c
}

struct PendingW {
    fut: crate::corpus::AFut,
    k: Key,
    err: bool,
    inv: bool,
    cif: bool,
    hit_stamp: Option<u64>,
    model_before: Model,
    now0: i64,
    stamp: u64,
}

struct Sim {
    s: &'static FnSpec,
    cfg: FnCfg,
    model: Model,
    now: i64,
    w: Option<PendingW>,
}

impl Sim {
    /// A complete call driven to completion on the spot, checked by the model.
    fn full_call(&mut self, op: &POp, what: &str) {
        if let POp::Call { k, err, size, dur_ns, gates, inv, cif } = op {
            let s = self.s;
            world::set_plan(s.id, *k, Script { err: *err, size: *size, shape: 0, dur_ns: *dur_ns, gates: *gates, inv_verdict: *inv, cif_verdict: *cif });
            let (n0, i0, c0) = world::with(|w| (w.execs.len(), w.inv_seen.len(), w.cif_seen.len()));
            seams::set_now_ns(self.now);
            let r = (s.call)(*k);
            let now_after = seams::peek_now_ns();
            let (execs, inv_seen, cif_seen) = world::with(|w| (w.execs[n0..].to_vec(), w.inv_seen[i0..].to_vec(), w.cif_seen[c0..].to_vec()));
            let owner = world::with(|w| w.execs.iter().find(|e| e.stamp == r.stamp).map(|e| (e.fn_id, e.k)));
            if owner != Some((s.id, *k)) {
                fail("wrong_value", &["C20", "C01"], format!("{what}: call {}({k}) returned a value produced by {:?}", s.fn_name, owner));
            }
            let obs = CallObs {
                ret_stamp: r.stamp,
                ret_err: r.is_err,
                exec_stamp: execs.first().map(|e| e.stamp),
                fp: r.fp,
                inv_seen: inv_seen.iter().map(|x| x.2).collect(),
                cif_seen: cif_seen.iter().map(|x| x.2).collect(),
                keys_after: Some(listed(s)),
                stats: stats(s),
            };
            let plan = CallPlan { k: *k, err: *err, dur_ns: now_after - self.now, inv_verdict: *inv, cif_verdict: *cif };
            match check_call(&self.model, &self.cfg, &plan, &obs, self.now) {
                Ok(m) => self.model = m,
                Err(c) => {
                    let c = to_c20(c, what);
                    let o: Vec<&str> = c.owners.iter().map(|x| x.as_str()).collect();
                    fail(&c.name, &o, format!("{} | fn {} #[{}]", c.detail, s.fn_name, s.attrs));
                }
            }
            self.now = now_after;
        }
    }

    /// Starts a second call and polls it once.
    fn suspend_w(&mut self, op: &POp, what: &str) {
        if self.w.is_some() {
            return;
        }
        let s = self.s;
        if let POp::SuspendW { k, err, size, dur_ns, gates, inv, cif } = op {
            let script = Script { err: *err, size: *size, shape: 0, dur_ns: *dur_ns, gates: *gates, inv_verdict: *inv, cif_verdict: *cif };
            world::set_plan(s.id, *k, script);
            let (n0, i0) = world::with(|w| (w.execs.len(), w.inv_seen.len()));
            seams::set_now_ns(self.now);
            let now0 = self.now;
            let model_before = self.model.clone();
            let mut fut = (s.fut.expect("async function"))(*k);
            let waker = std::task::Waker::noop();
            let mut cx = Context::from_waker(&waker);
            if let Poll::Ready(_r) = fut.as_mut().poll(&mut cx) {
                // served from the cache at once: an ordinary call; re-run it through the checked path
                // is not possible (it already happened), so account for it as a hit/complete call
                let (execs, invs) = world::with(|w| (w.execs[n0..].to_vec(), w.inv_seen[i0..].iter().map(|x| x.2).collect::<Vec<u64>>()));
                let obs = CallObs { ret_stamp: _r.stamp, ret_err: _r.is_err, exec_stamp: execs.first().map(|e| e.stamp), fp: _r.fp, inv_seen: invs, cif_seen: vec![], keys_after: Some(listed(s)), stats: stats(s) };
                let plan = CallPlan { k: *k, err: *err, dur_ns: seams::peek_now_ns() - now0, inv_verdict: *inv, cif_verdict: *cif };
                if execs.is_empty() {
                    match check_call(&self.model, &self.cfg, &plan, &obs, now0) {
                        Ok(m) => self.model = m,
                        Err(c) => {
                            let c = to_c20(c, what);
                            let o: Vec<&str> = c.owners.iter().map(|x| x.as_str()).collect();
                            fail(&c.name, &o, c.detail);
                        }
                    }
                    self.now = seams::peek_now_ns();
                } else {
                    fail("harness", &["HARNESS"], "a body with an await completed in one poll".to_string());
                }
                return;
            }
            let (execs, invs) = world::with(|w| (w.execs[n0..].to_vec(), w.inv_seen[i0..].iter().map(|x| x.2).collect::<Vec<u64>>()));
            let stamp = match execs.first() {
                Some(e) => e.stamp,
                None => fail("harness", &["HARNESS"], "a pending call has not started its body".to_string()),
            };
            let obs = CallObs { exec_stamp: Some(stamp), inv_seen: invs, ..Default::default() };
            let plan = CallPlan { k: *k, err: *err, dur_ns: 0, inv_verdict: *inv, cif_verdict: *cif };
            match check_call_begin(&self.model, &self.cfg, &plan, &obs, now0) {
                Ok((m1, h)) => {
                    self.model = m1;
                    self.now = seams::peek_now_ns();
                    self.w = Some(PendingW { fut, k: *k, err: *err, inv: *inv, cif: *cif, hit_stamp: h, model_before, now0, stamp });
                    self.expect_keys("right after suspending a second call");
                }
                Err(c) => {
                    let c = to_c20(c, "second pending call, lookup");
                    let o: Vec<&str> = c.owners.iter().map(|x| x.as_str()).collect();
                    fail(&c.name, &o, c.detail);
                }
            }
        }
    }

    fn resume_w(&mut self, what: &str) {
        let s = self.s;
        if let Some(mut w) = self.w.take() {
            seams::set_now_ns(self.now);
            let (n1, i1, c1) = world::with(|x| (x.execs.len(), x.inv_seen.len(), x.cif_seen.len()));
            let waker = std::task::Waker::noop();
            let mut cx = Context::from_waker(&waker);
            let r = loop {
                if let Poll::Ready(r) = w.fut.as_mut().poll(&mut cx) {
                    break r;
                }
            };
            let now_end = seams::peek_now_ns();
            let (execs, invs, cifs) = world::with(|x| (x.execs[n1..].to_vec(), x.inv_seen[i1..].to_vec(), x.cif_seen[c1..].to_vec()));
            if !execs.is_empty() || !invs.is_empty() || r.stamp != w.stamp {
                fail("resumed_call_looked_up_again", &["C20"], format!("{what}: resuming {}({}) ran bodies {:?} / consulted invalidate_on {:?} / returned stamp {} (its own execution is {})", s.fn_name, w.k, execs, invs, r.stamp, w.stamp));
            }
            let obs = CallObs {
                ret_stamp: r.stamp,
                ret_err: r.is_err,
                exec_stamp: Some(r.stamp),
                fp: r.fp,
                inv_seen: vec![],
                cif_seen: cifs.iter().map(|x| x.2).collect(),
                keys_after: Some(listed(s)),
                stats: stats(s),
            };
            let plan = CallPlan { k: w.k, err: w.err, dur_ns: 0, inv_verdict: w.inv, cif_verdict: w.cif };
            match check_call_end(&w.model_before, &self.model, &self.cfg, &plan, &obs, w.hit_stamp, now_end, w.now0) {
                Ok(m) => self.model = m,
                Err(c) => {
                    let c = to_c20(c, "a second resumed call must store as an ordinary completion at resume time");
                    let o: Vec<&str> = c.owners.iter().map(|x| x.as_str()).collect();
                    fail(&c.name, &o, format!("{} | fn {} #[{}]", c.detail, s.fn_name, s.attrs));
                }
            }
            self.now = now_end;
        }
    }

    fn other(&mut self, op: &POp, what: &str) {
        let s = self.s;
        match op {
            POp::SuspendW { .. } => self.suspend_w(op, what),
            POp::ResumeW => self.resume_w(what),
            POp::DropW => {
                if let Some(w) = self.w.take() {
                    drop(w);
                    self.expect_keys("right after dropping the second pending call");
                }
            }
            POp::Call { .. } => self.full_call(op, what),
            POp::Adv(dt) => {
                self.now += *dt;
                seams::set_now_ns(self.now);
            }
            POp::InvWith(mask) => {
                let m = *mask;
                let f = s.id;
                cachelito_core::invalidate_with(s.reg_name, |k: &str| key_of_str(f, k).map_or(false, |x| m & (1 << x) != 0));
                self.model.invalidate(&|k| m & (1 << k) != 0);
                self.expect_keys(what);
            }
            POp::InvName => {
                let hit = cachelito_core::invalidate_cache(s.reg_name);
                if hit {
                    self.model.clear();
                }
                self.expect_keys(what);
            }
            POp::InvTag(t) => {
                cachelito_core::invalidate_by_tag(t);
                if s.tags.contains(&t.as_str()) {
                    self.model.clear();
                }
                self.expect_keys(what);
            }
        }
    }

    fn expect_keys(&self, what: &str) {
        let got = listed(self.s);
        if got != self.model.keys() {
            fail(
                "cache_corrupted_by_suspended_call",
                &["C20"],
                format!("{what}: {} [{}] lists {:?}, the model in which the pending call only performed its lookup holds {:?}", self.s.fn_name, self.s.attrs, got, self.model.keys()),
            );
        }
        // a function that has not been called yet in this execution has no statistics entry
        let st = stats(self.s).or(Some((0, 0)));
        if st != Some((self.model.stat_hits, self.model.stat_misses)) {
            fail(
                "stats_corrupted_by_suspended_call",
                &["C20", "C15"],
                format!("{what}: statistics {:?}, expected ({}, {})", st, self.model.stat_hits, self.model.stat_misses),
            );
        }
    }
}

pub fn run_pcase(case: &PCase) {
    let s = spec(case.f);
    cachelito_core::InvalidationRegistry::global().clear();
    seams::set_now_ns(0);
    seams::clear_sched_point();
    dashmap::SHARDS.store(case.shards.max(1) as usize, std::sync::atomic::Ordering::Relaxed);
    dashmap::SALT.store(case.salt, std::sync::atomic::Ordering::Relaxed);
    fastrand::seed(case.salt);
    world::reset_run(case.salt);
    let mut sim = Sim { s, cfg: cfg_of(s), model: Model::new(cfg_of(s).params), now: 0, w: None };
    for op in &case.pre {
        sim.other(op, "before the victim call");
    }
    // ---- the victim call, polled by hand
    let (k, err, size, dur_ns, gates, inv, cif) = match &case.victim {
        POp::Call { k, err, size, dur_ns, gates, inv, cif } => (*k, *err, *size, *dur_ns, *gates, *inv, *cif),
        _ => unreachable!(),
    };
    let script = Script { err, size, shape: 0, dur_ns, gates, inv_verdict: inv, cif_verdict: cif };
    world::set_plan(s.id, k, script);
    let (n0, i0, c0) = world::with(|w| (w.execs.len(), w.inv_seen.len(), w.cif_seen.len()));
    seams::set_now_ns(sim.now);
    let now0 = sim.now;
    let model_before = sim.model.clone();
    let mut fut = (s.fut.expect("async function"))(k);
    let waker = std::task::Waker::noop();
    let mut cx = Context::from_waker(&waker);
    let mut done: Option<crate::corpus::RetObs> = None;
    for _ in 0..case.polls {
        if done.is_some() {
            break;
        }
        if let Poll::Ready(r) = fut.as_mut().poll(&mut cx) {
            done = Some(r);
        }
    }
    // what the first polls did: at most the lookup and the start of the body
    let mut hit_stamp = None;
    let mut begun = false;
    let plan = |d: i64| CallPlan { k, err, dur_ns: d, inv_verdict: inv, cif_verdict: cif };
    let obs_begin = |w_execs: &Vec<world::ExecRec>, invs: Vec<u64>, ret: Option<&crate::corpus::RetObs>| CallObs {
        ret_stamp: ret.map_or(0, |r| r.stamp),
        ret_err: ret.map_or(false, |r| r.is_err),
        exec_stamp: w_execs.first().map(|e| e.stamp),
        fp: ret.map_or(0, |r| r.fp),
        inv_seen: invs,
        cif_seen: vec![],
        keys_after: None,
        stats: None,
    };
    if case.polls > 0 && done.is_none() {
        let (execs, invs) = world::with(|w| (w.execs[n0..].to_vec(), w.inv_seen[i0..].iter().map(|x| x.2).collect::<Vec<u64>>()));
        if execs.is_empty() {
            fail("harness", &["HARNESS"], "a pending victim call has not started its body".to_string());
        }
        match check_call_begin(&sim.model, &sim.cfg, &plan(0), &obs_begin(&execs, invs, None), now0) {
            Ok((m1, h)) => {
                sim.model = m1;
                hit_stamp = h;
                begun = true;
            }
            Err(c) => {
                let c = to_c20(c, "victim lookup");
                let o: Vec<&str> = c.owners.iter().map(|x| x.as_str()).collect();
                fail(&c.name, &o, c.detail);
            }
        }
        // the clock may have moved inside the body (time passes at the first await)
        sim.now = seams::peek_now_ns();
        sim.expect_keys("right after suspending the call");
    }
    // ---- the world goes on while the call is suspended (or not yet started)
    if done.is_none() {
        for op in &case.during {
            sim.other(op, if case.polls == 0 { "while the call is created but not polled" } else { "while the call is suspended" });
        }
    }
    let completed_at_once = done.is_some();
    // ---- resume or drop
    if done.is_none() && case.resume {
        seams::set_now_ns(sim.now);
        let t_resume = sim.now;
        let (n1, i1, c1) = world::with(|w| (w.execs.len(), w.inv_seen.len(), w.cif_seen.len()));
        if !begun {
            // the interleaved program may have planned calls for the same key: the victim's
            // plan must be the current one when its body starts
            world::set_plan(s.id, k, script);
        }
        let r = loop {
            if let Poll::Ready(r) = fut.as_mut().poll(&mut cx) {
                break r;
            }
        };
        let now_end = seams::peek_now_ns();
        let owner = world::with(|w| w.execs.iter().find(|e| e.stamp == r.stamp).map(|e| (e.fn_id, e.k)));
        if owner != Some((s.id, k)) {
            fail("wrong_value", &["C20", "C01"], format!("resumed call {}({k}) returned a value produced by {:?}", s.fn_name, owner));
        }
        let (execs, invs, cifs) = world::with(|w| (w.execs[n1..].to_vec(), w.inv_seen[i1..].to_vec(), w.cif_seen[c1..].to_vec()));
        if !begun {
            // never polled before: the whole call happens now, as an ordinary call
            let obs = CallObs {
                ret_stamp: r.stamp,
                ret_err: r.is_err,
                exec_stamp: execs.first().map(|e| e.stamp),
                fp: r.fp,
                inv_seen: invs.iter().map(|x| x.2).collect(),
                cif_seen: cifs.iter().map(|x| x.2).collect(),
                keys_after: Some(listed(s)),
                stats: stats(s),
            };
            match check_call(&sim.model, &sim.cfg, &plan(now_end - t_resume), &obs, t_resume) {
                Ok(m) => sim.model = m,
                Err(c) => {
                    let c = to_c20(c, "call polled for the first time after the interleaved program");
                    let o: Vec<&str> = c.owners.iter().map(|x| x.as_str()).collect();
                    fail(&c.name, &o, format!("{} | fn {} #[{}]", c.detail, s.fn_name, s.attrs));
                }
            }
        } else {
            if !execs.is_empty() || !invs.is_empty() {
                fail("resumed_call_looked_up_again", &["C20"], format!("resuming {}({k}) ran bodies {:?} / consulted invalidate_on {:?}", s.fn_name, execs, invs));
            }
            let obs = CallObs {
                ret_stamp: r.stamp,
                ret_err: r.is_err,
                exec_stamp: Some(r.stamp),
                fp: r.fp,
                inv_seen: vec![],
                cif_seen: cifs.iter().map(|x| x.2).collect(),
                keys_after: Some(listed(s)),
                stats: stats(s),
            };
            match check_call_end(&model_before, &sim.model, &sim.cfg, &plan(0), &obs, hit_stamp, now_end, now0) {
                Ok(m) => sim.model = m,
                Err(c) => {
                    let c = to_c20(c, "a resumed call must store as an ordinary completion at resume time");
                    let o: Vec<&str> = c.owners.iter().map(|x| x.as_str()).collect();
                    fail(&c.name, &o, format!("{} | fn {} #[{}]", c.detail, s.fn_name, s.attrs));
                }
            }
        }
        sim.now = now_end;
    } else if done.is_none() {
        drop(fut);
        sim.expect_keys("right after dropping the call");
    } else if let Some(r) = done {
        // completed within the given polls: an ordinary call
        let now_end = seams::peek_now_ns();
        let (execs, invs, cifs) = world::with(|w| (w.execs[n0..].to_vec(), w.inv_seen[i0..].to_vec(), w.cif_seen[c0..].to_vec()));
        let obs = CallObs {
            ret_stamp: r.stamp,
            ret_err: r.is_err,
            exec_stamp: execs.first().map(|e| e.stamp),
            fp: r.fp,
            inv_seen: invs.iter().map(|x| x.2).collect(),
            cif_seen: cifs.iter().map(|x| x.2).collect(),
            keys_after: Some(listed(s)),
            stats: stats(s),
        };
        match check_call(&sim.model, &sim.cfg, &plan(now_end - now0), &obs, now0) {
            Ok(m) => sim.model = m,
            Err(c) => {
                let c = to_c20(c, "victim completed");
                let o: Vec<&str> = c.owners.iter().map(|x| x.as_str()).collect();
                fail(&c.name, &o, c.detail);
            }
        }
        sim.now = now_end;
    }
    if completed_at_once {
        // control runs: the victim was an ordinary call, the same program follows it
        for op in &case.during {
            sim.other(op, "after the call completed");
        }
    }
    // ---- afterwards the cache behaves as the model says
    for op in &case.post {
        sim.other(op, if case.resume { "after the call was resumed" } else { "after the call was dropped" });
    }
    if sim.w.is_some() {
        sim.other(&POp::DropW, "at the end");
    }
}

// ---------------------------------------------------------------------------------------

fn gen_call(r: &mut Rng, s: &FnSpec, k: Key, whole: bool) -> POp {
    let size = match s.max_memory {
        None => r.below(9) as u32,
        Some(m) => {
            let m = m as u64;
            *r.pick(&[0, m / 8, m / 4, m / 3, m / 2, m.saturating_sub(64), m.saturating_sub(40), m + 1]) as u32
        }
    };
    POp::Call {
        k,
        err: s.is_result && r.chance(1, 4),
        size,
        dur_ns: if whole { *r.pick(&[0, 0, SEC]) } else { *r.pick(&[0, 0, 1, SEC / 2, SEC, 2 * SEC]) },
        gates: r.range(1, 3) as u8,
        inv: r.chance(3, 10),
        cif: r.chance(7, 10),
    }
}

/// The base case of a seed; the batch runner then enumerates polls x {resume, drop}.
pub fn gen_base(seed: u64, run: u64) -> PCase {
    let mut r = Rng::new(seed);
    let pool: Vec<&FnSpec> = SPECS.iter().filter(|s| s.is_async && registered(s) && s.family != "nested").collect();
    // walk through all async functions, one per run
    let s = pool[(run % pool.len() as u64) as usize];
    let whole = s.policy == Policy::Tlru && s.ttl.is_some();
    let cap = s.limit.unwrap_or(3);
    let nk = (s.nkeys as u64).min(cap as u64 + 2).max(1);
    let k0 = r.below(nk) as Key;
    let steps: Vec<i64> = if whole { vec![SEC, 2 * SEC, 3 * SEC] } else { vec![0, 1, SEC / 2, SEC, 2 * SEC, 3 * SEC, 4 * SEC] };
    let mut pre = Vec::new();
    for _ in 0..r.below(5) {
        match r.below(6) {
            0..=3 => {
                let k = if r.chance(1, 3) { k0 } else { r.below(nk) as Key };
                pre.push(gen_call(&mut r, s, k, whole));
            }
            _ => pre.push(POp::Adv(*r.pick(&steps))),
        }
    }
    let victim = gen_call(&mut r, s, k0, whole);
    let mut during = Vec::new();
    // always probe the locks: the same key and another one
    during.push(gen_call(&mut r, s, k0, whole));
    for _ in 0..r.below(4) {
        match r.below(8) {
            0..=2 => {
                let k = r.below(nk) as Key;
                during.push(gen_call(&mut r, s, k, whole));
            }
            3 => during.push(POp::Adv(*r.pick(&steps))),
            4 | 5 => during.push(POp::InvWith(r.below(256) as u8)),
            6 => during.push(POp::InvName),
            _ => during.push(POp::InvTag(s.tags.first().map_or("x".to_string(), |t| t.to_string()))),
        }
    }
    if r.chance(1, 2) {
        let n = during.len() - 1;
        during.swap(0, n);
    }
    // a second call in flight at the same time (same key: duplicate computation; or another key)
    let mut w_pending = false;
    if r.chance(2, 5) {
        let k = if r.chance(1, 2) { k0 } else { r.below(nk) as Key };
        if let POp::Call { k, err, size, dur_ns, gates, inv, cif } = gen_call(&mut r, s, k, whole) {
            let at = r.below(during.len() as u64 + 1) as usize;
            during.insert(at, POp::SuspendW { k, err, size, dur_ns, gates, inv, cif });
            w_pending = true;
            match r.below(3) {
                0 => during.push(POp::ResumeW),
                1 => during.push(POp::DropW),
                _ => {}
            }
        }
    }
    let mut post = Vec::new();
    post.push(gen_call(&mut r, s, k0, whole));
    for _ in 0..r.below(5) {
        if r.chance(1, 4) {
            post.push(POp::Adv(*r.pick(&steps)));
        }
        let k = if r.chance(1, 3) { k0 } else { r.below(nk) as Key };
        post.push(gen_call(&mut r, s, k, whole));
    }
    if w_pending && r.chance(1, 2) {
        let at = r.below(post.len() as u64 + 1) as usize;
        post.insert(at, if r.chance(2, 3) { POp::ResumeW } else { POp::DropW });
    }
    PCase { f: s.id, pre, victim, polls: 1, resume: true, during, post, shards: *r.pick(&[1u8, 2, 4]), salt: r.next_u64() }
}

fn panic_text(e: Box<dyn std::any::Any + Send>) -> String {
    if let Some(s) = e.downcast_ref::<&str>() {
        s.to_string()
    } else if let Some(s) = e.downcast_ref::<String>() {
        s.clone()
    } else {
        "panic".to_string()
    }
}

fn parse_panic(msg: &str) -> Clause {
    if let Some(rest) = msg.strip_prefix("CLAUSE|") {
        let mut it = rest.splitn(3, '|');
        let name = it.next().unwrap_or("oracle");
        let owners: Vec<&str> = it.next().unwrap_or("").split(',').filter(|s| !s.is_empty()).collect();
        let detail = it.next().unwrap_or("").to_string();
        return Clause::new(name, &owners, detail);
    }
    let low = msg.to_lowercase();
    if low.contains("deadlock") || low.contains("already holds") {
        return Clause::new("lock_held_across_await", &["C20"], format!("an operation blocked while the call was suspended: {}", msg.lines().next().unwrap_or("")));
    }
    Clause::new("panic_in_execution", &["C20", "C16"], msg.lines().next().unwrap_or("").to_string())
}

pub fn execute(case: &PCase) -> Option<Clause> {
    let c = Arc::new(case.clone());
    let res = catch_unwind(AssertUnwindSafe(|| {
        let runner = shuttle::Runner::new(shuttle::scheduler::RandomScheduler::new_from_seed(case.salt, 1), quiet_config(2_000_000));
        runner.run(move || run_pcase(&c));
    }));
    res.err().map(|e| parse_panic(&panic_text(e)))
}

fn child_fails(dir: &PathBuf, case: &PCase, clause: &str) -> bool {
    std::fs::create_dir_all(dir.join("tmp")).ok();
    let path = dir.join("tmp").join(format!("cand-poll-{}.json", std::process::id()));
    let rp = Replay { property: "C20".into(), clause: clause.into(), signature: String::new(), detail: String::new(), engine: "poll".into(), run_seed: 0, case: serde_json::to_value(case).unwrap() };
    std::fs::write(&path, serde_json::to_string(&rp).unwrap()).expect("write");
    let st = std::process::Command::new(std::env::current_exe().unwrap()).arg("replay").arg(&path).arg("--quiet").stdout(std::process::Stdio::null()).stderr(std::process::Stdio::null()).status();
    let _ = std::fs::remove_file(&path);
    matches!(st.map(|s| s.code()), Ok(Some(1)))
}

/// Does the case fail at all (any clause) in a fresh process?
fn child_fails_any(dir: &PathBuf, case: &PCase) -> bool {
    std::fs::create_dir_all(dir.join("tmp")).ok();
    let path = dir.join("tmp").join(format!("ctl-poll-{}.json", std::process::id()));
    let rp = Replay { property: "C20".into(), clause: "*".into(), signature: String::new(), detail: String::new(), engine: "poll".into(), run_seed: 0, case: serde_json::to_value(case).unwrap() };
    std::fs::write(&path, serde_json::to_string(&rp).unwrap()).expect("write");
    let st = std::process::Command::new(std::env::current_exe().unwrap()).arg("replay").arg(&path).arg("--quiet").stdout(std::process::Stdio::null()).stderr(std::process::Stdio::null()).status();
    let _ = std::fs::remove_file(&path);
    matches!(st.map(|s| s.code()), Ok(Some(1)))
}

fn minimise(dir: &PathBuf, case: &PCase, clause: &str) -> PCase {
    let mut best = case.clone();
    let budget = std::time::Duration::from_secs(15);
    for part in 0..3 {
        let base = best.clone();
        let ops = match part {
            0 => base.post.clone(),
            1 => base.during.clone(),
            _ => base.pre.clone(),
        };
        if ops.is_empty() {
            continue;
        }
        let mut pred = |o: &[POp]| {
            let mut t = base.clone();
            match part {
                0 => t.post = o.to_vec(),
                1 => t.during = o.to_vec(),
                _ => t.pre = o.to_vec(),
            }
            child_fails(dir, &t, clause)
        };
        // an empty list is a legal candidate too
        if pred(&[]) {
            match part {
                0 => best.post.clear(),
                1 => best.during.clear(),
                _ => best.pre.clear(),
            }
            continue;
        }
        let kept = ddmin(ops, &mut pred, budget);
        match part {
            0 => best.post = kept,
            1 => best.during = kept,
            _ => best.pre = kept,
        }
    }
    best
}

pub fn run_batch(prop: &str, seed: u64, start: u64, runs: u64, dir: &PathBuf, known: &BTreeSet<String>, digests: bool) -> i32 {
    simcore::watchdog::begin_case(0, serde_json::json!("calibration"));
    crate::scen::calibrate();
    simcore::watchdog::end_case();
    let mut res = WorkerResult { property: prop.to_string(), engine: "poll".into(), rule: RULE.to_string(), ..Default::default() };
    let mut kinds_seen: BTreeMap<String, u64> = BTreeMap::new();
    'runs: for run in start..start + runs {
        let run_seed = mix(&[seed, hash_str(prop), hash_str("poll"), run]);
        let base = gen_base(run_seed, run);
        let gates = match &base.victim {
            POp::Call { gates, .. } => *gates,
            _ => 1,
        };
        res.runs += 1;
        // every poll boundary (0 = created but never polled, 1..=gates = suspended at that await) x {resume, drop}
        for polls in 0..=gates {
            for resume in [true, false] {
                let mut case = base.clone();
                case.polls = polls;
                case.resume = resume;
                res.ops += (case.pre.len() + case.during.len() + case.post.len() + 1) as u64;
                simcore::watchdog::begin_case(run_seed, serde_json::to_value(&case).unwrap());
                let out = execute(&case);
                simcore::watchdog::end_case();
                res.counters.inc(&format!("fault.{}_at_await_{}", if resume { "suspend_resume" } else { "cancel" }, polls));
                res.counters.inc(&format!("family.{}", spec(case.f).family));
                let kinds: BTreeSet<&str> = case.during.iter().map(|o| match o { POp::Call { .. } => "call", POp::Adv(_) => "adv", POp::InvWith(_) => "inv_with", POp::InvName => "inv_name", POp::InvTag(_) => "inv_tag", POp::SuspendW { .. } => "second_pending", POp::ResumeW => "resume_second", POp::DropW => "drop_second" }).collect();
                let cls = format!("f{}|{}|{}|{:?}", case.f, polls, resume, kinds);
                *kinds_seen.entry(cls.clone()).or_insert(0) += 1;
                res.distinct.insert(hash_str(&cls));
                res.states.insert(hash_str(&format!("{}{}{}", run_seed, polls, resume)));
                if digests {
                    println!("DIGEST {run}.{polls}.{resume} {:016x}", world::with(|w| w.seq));
                }
                if res.samples.len() < 2 && polls == 1 {
                    res.samples.push(serde_json::json!({"run": run, "run_seed": run_seed, "function": format!("{} #[{}]", spec(case.f).fn_name, spec(case.f).attrs), "case": case}));
                }
                if let Some(mut c) = out {
                    if c.owned_by(prop) {
                        // control: the same history with the victim as an ordinary, uninterrupted
                        // call. If that fails too the defect is not about suspension / cancellation.
                        // (a) victim first, then the program; (b) the program first, then the victim.
                        // A call that was never polled has done nothing: boundary 0 is sequential by itself.
                        let mut ctl_a = case.clone();
                        ctl_a.polls = 200;
                        ctl_a.resume = true;
                        let mut ctl_b = case.clone();
                        ctl_b.polls = 0;
                        ctl_b.resume = true;
                        if polls == 0 || child_fails_any(dir, &ctl_a) || child_fails_any(dir, &ctl_b) {
                            c.owners.retain(|o| o != "C20");
                            res.counters.inc("control.uninterrupted_run_fails_too");
                        }
                    }
                    if c.owned_by(prop) {
                        let sig = format!("{}|{:?}|{}|polls={}|resume={}", c.name, spec(case.f).policy, if spec(case.f).has_inv_on { "inv_on" } else { "-" }, polls.min(1), resume);
                        if known.contains(&sig) {
                            println!("KNOWN-FINDING: property={prop} {sig} {}", c.detail);
                            break 'runs;
                        }
                        let min = minimise(dir, &case, &c.name);
                        let rp = Replay { property: prop.into(), clause: c.name.clone(), signature: sig.clone(), detail: c.detail.clone(), engine: "poll".into(), run_seed, case: serde_json::to_value(&min).unwrap() };
                        std::fs::create_dir_all(dir).ok();
                        let path = dir.join(format!("{}-poll-{:016x}.json", prop, run_seed));
                        std::fs::write(&path, serde_json::to_string_pretty(&rp).unwrap()).expect("write replay");
                        println!("VIOLATION property={} replay={}", prop, path.display());
                        println!("  clause={} signature={}", c.name, sig);
                        println!("  {}", c.detail);
                        res.violations.push(ViolationRef { property: prop.into(), clause: c.name.clone(), detail: c.detail.clone(), replay: path.display().to_string(), signature: sig });
                    } else {
                        res.foreign_deviations += 1;
                        res.counters.inc(&format!("foreign.{}", c.name));
                        if std::env::var("SIM_DEBUG").is_ok() {
                            println!("FOREIGN {} {} :: {}", c.name, c.detail, serde_json::to_string(&case).unwrap());
                        }
                    }
                    // never reuse a process after a failed execution
                    break 'runs;
                }
            }
        }
    }
    println!("RESULT {}", serde_json::to_string(&res).unwrap());
    if res.violations.is_empty() {
        0
    } else {
        1
    }
}

pub fn replay(rp: &Replay, path: &str, quiet: bool) -> i32 {
    let case: PCase = serde_json::from_value(rp.case.clone()).expect("case");
    crate::scen::calibrate();
    match execute(&case) {
        Some(c) if rp.clause == "*" || (c.name == rp.clause && c.owned_by(&rp.property)) => {
            if !quiet {
                println!("  case: {}", serde_json::to_string(&case).unwrap());
                println!("VIOLATION property={} replay={}", rp.property, path);
                println!("  clause={}: {}", c.name, c.detail);
            }
            1
        }
        o => {
            if !quiet {
                println!("NOT-REPRODUCED property={} expected clause {} got {:?}", rp.property, rp.clause, o.map(|c| c.name));
            }
            3
        }
    }
}
