#![allow(dead_code, unused_imports, unused_variables)]
#[path = "../../../shared/corpus.rs"]
mod corpus;
mod poll;
mod scen;
#[path = "../../../shared/vals.rs"]
mod vals;
#[path = "../../../shared/world.rs"]
mod world;
/// `std` as the macro expansions of the corpus see it: shuttle's `Once` in place of std's.
pub mod sim_std {
    pub use ::std::*;
    pub mod sync {
        pub use ::std::sync::*;
        pub use shuttle::sync::Once;
    }
}

use scen::*;
use serde::{Deserialize, Serialize};
use simcore::check::Clause;
use simcore::report::*;
use simcore::rng::mix;
use std::collections::BTreeSet;
use std::panic::{catch_unwind, AssertUnwindSafe};
use std::path::PathBuf;
use std::sync::Arc;
use std::time::{Duration, Instant};

pub const MAX_STEPS: usize = 200_000;

pub const RULE: &str = "one evaluation = one shuttle execution of a generated program (2-3 simulated threads x 2-6 operations: cached calls, group / conditional invalidations, statistics queries, clock steps; or get/insert/clear on a core cache shared by the threads; or a single-threaded registration scenario) under a seeded uniform-random or PCT(1-3) schedule at lock-acquisition granularity. distinct_nontrivial counts distinct (universe, per-thread operation kinds, digest of the recorded invoke/return/executed history mod 8) tuples among the executions in which two top-level calls overlapped in time (a context switch happened inside an operation) or that are core-cache / registration programs; distinct_states_or_schedules counts distinct history digests";

fn arg(args: &[String], name: &str) -> Option<String> {
    args.iter().position(|a| a == name).and_then(|i| args.get(i + 1)).cloned()
}

#[derive(Clone, Debug, Serialize, Deserialize)]
pub struct SReplay {
    pub case: SCase,
    pub sched: Sched,
}

/// Outcome of one execution.
pub enum Outcome {
    Ok,
    Fail(Clause),
}

fn parse_panic(msg: &str) -> Clause {
    if let Some(rest) = msg.strip_prefix("CLAUSE|") {
        let mut it = rest.splitn(3, '|');
        let name = it.next().unwrap_or("oracle");
        let owners: Vec<&str> = it.next().unwrap_or("").split(',').filter(|s| !s.is_empty()).collect();
        let detail = it.next().unwrap_or("").to_string();
        return Clause::new(name, &owners, detail);
    }
    let low = msg.to_lowercase();
    if low.contains("deadlock") {
        return Clause::new("deadlock", &["C17", "C18"], msg.lines().next().unwrap_or("").to_string());
    }
    if low.contains("exceeded max_steps") || low.contains("max_steps") {
        return Clause::new("no_progress", &["C17", "C18"], format!("step budget exhausted: {}", msg.lines().next().unwrap_or("")));
    }
    if low.contains("already borrowed") || low.contains("already mutably borrowed") {
        return Clause::new("panic", &["C16"], msg.lines().next().unwrap_or("").to_string());
    }
    Clause::new("panic_in_execution", &["C16", "C17", "C18"], msg.lines().next().unwrap_or("").to_string())
}

fn panic_text(e: Box<dyn std::any::Any + Send>) -> String {
    if let Some(s) = e.downcast_ref::<&str>() {
        s.to_string()
    } else if let Some(s) = e.downcast_ref::<String>() {
        s.clone()
    } else {
        "panic".to_string()
    }
}

pub fn execute(case: &SCase, sched: &Sched, prop: &str) -> (Outcome, Report) {
    *REPORT.lock().unwrap_or_else(|e| e.into_inner()) = Some(Report::default());
    let c = Arc::new(case.clone());
    let p = prop.to_string();
    let cfg = quiet_config(MAX_STEPS);
    let res = catch_unwind(AssertUnwindSafe(|| {
        let f = move || run_case(Arc::clone(&c), p.clone());
        if sched.pct_depth == 0 {
            shuttle::Runner::new(shuttle::scheduler::RandomScheduler::new_from_seed(sched.seed, 1), cfg).run(f);
        } else {
            shuttle::Runner::new(shuttle::scheduler::PctScheduler::new_from_seed(sched.seed, sched.pct_depth as usize, 1), cfg).run(f);
        }
    }));
    let rp = REPORT.lock().unwrap_or_else(|e| e.into_inner()).take().unwrap_or_default();
    if std::env::var("SIM_DEBUG").is_ok() {
        for c in &rp.calls {
            println!("  call f{}({}) invoke={} ret={} executed={}", c.f, c.k, c.invoke, c.ret, c.executed);
        }
        world::with(|w| {
            for e in &w.execs {
                println!("  exec stamp={} f{}({}) task={}", e.stamp, e.fn_id, e.k, e.task);
            }
        });
    }
    match res {
        Err(e) => (Outcome::Fail(parse_panic(&panic_text(e))), rp),
        Ok(()) => match history_checks(case, &rp, prop) {
            Some((name, owners, detail)) => {
                let o: Vec<&str> = owners.iter().map(|s| s.as_str()).collect();
                (Outcome::Fail(Clause::new(&name, &o, detail)), rp)
            }
            None => (Outcome::Ok, rp),
        },
    }
}

fn shape(case: &SCase) -> String {
    let mut s = format!("{:?}|", case.fns);
    if let Kind::L1(p) = &case.kind {
        s.push_str(&p.short());
    }
    for t in &case.threads {
        s.push('[');
        for op in t {
            s.push_str(format!("{op:?}").split(|c: char| !c.is_alphanumeric()).next().unwrap_or(""));
            s.push(',');
        }
        s.push(']');
    }
    s
}

fn signature(case: &SCase, c: &Clause) -> String {
    let what = match &case.kind {
        Kind::L1(p) => format!("L1|{:?}|{}", p.flavour, p.policy.name()),
        Kind::Reg => "Reg".to_string(),
        Kind::L2 => {
            let mut kinds: BTreeSet<String> = BTreeSet::new();
            for op in case.threads.iter().flatten() {
                kinds.insert(format!("{op:?}").split(|c: char| !c.is_alphanumeric()).next().unwrap_or("").to_string());
            }
            let fl: BTreeSet<String> = case.fns.iter().map(|f| format!("{:?}", spec(*f).flavour)).collect();
            format!("L2|{}|{}", fl.into_iter().collect::<Vec<_>>().join("+"), kinds.into_iter().collect::<Vec<_>>().join("+"))
        }
    };
    format!("{}|{}", c.name, what)
}

/// Searches `budget` schedule seeds for a failing execution of `case` with the given clause.
/// Must run in a process that has not seen a failed execution yet.
fn search(case: &SCase, prop: &str, clause: &str, base: u64, budget: u64) -> Option<Sched> {
    for i in 0..budget {
        let sched = Sched { pct_depth: (i % 4) as u8, seed: mix(&[base, i]) };
        if let (Outcome::Fail(c), _) = execute(case, &sched, prop) {
            if c.name == clause && c.owned_by(prop) {
                return Some(sched);
            }
            // a different failure: this process is no longer clean
            return None;
        }
    }
    None
}

fn child_search(dir: &PathBuf, case: &SCase, sched: Option<&Sched>, prop: &str, clause: &str, budget: u64) -> Option<Sched> {
    std::fs::create_dir_all(dir.join("tmp")).ok();
    let path = dir.join("tmp").join(format!("cand-sched-{}-{}.json", std::process::id(), prop));
    let rp = Replay {
        property: prop.to_string(),
        clause: clause.to_string(),
        signature: String::new(),
        detail: String::new(),
        engine: "sched".to_string(),
        run_seed: 0,
        case: serde_json::to_value(SReplay { case: case.clone(), sched: sched.cloned().unwrap_or(Sched { pct_depth: 0, seed: 0 }) }).unwrap(),
    };
    std::fs::write(&path, serde_json::to_string(&rp).unwrap()).expect("write candidate");
    let mut cmd = std::process::Command::new(std::env::current_exe().expect("exe"));
    if sched.is_some() {
        cmd.arg("replay").arg(&path).arg("--quiet");
    } else {
        cmd.arg("search").arg(&path).arg("--budget").arg(budget.to_string());
    }
    let out = cmd.stderr(std::process::Stdio::null()).output();
    let _ = std::fs::remove_file(&path);
    let out = out.ok()?;
    if out.status.code() != Some(1) {
        return None;
    }
    if let Some(s) = sched {
        return Some(s.clone());
    }
    let text = String::from_utf8_lossy(&out.stdout);
    for l in text.lines() {
        if let Some(j) = l.strip_prefix("FOUND ") {
            return serde_json::from_str(j).ok();
        }
    }
    None
}

/// Delta-debugs the program (each candidate searched over schedules in a fresh process).
fn minimise(dir: &PathBuf, case: &SCase, sched: &Sched, prop: &str, clause: &str) -> (SCase, Sched) {
    let start = Instant::now();
    let mut best = case.clone();
    let mut best_sched = sched.clone();
    // flatten (thread, op index)
    let mut items: Vec<(usize, usize)> = Vec::new();
    for (t, ops) in case.threads.iter().enumerate() {
        for i in 0..ops.len() {
            items.push((t, i));
        }
    }
    let build = |keep: &[(usize, usize)]| -> SCase {
        let mut c = case.clone();
        for (t, ops) in c.threads.iter_mut().enumerate() {
            let orig = case.threads[t].clone();
            *ops = orig.into_iter().enumerate().filter(|(i, _)| keep.contains(&(t, *i))).map(|x| x.1).collect();
        }
        c
    };
    let mut found: Vec<(Vec<(usize, usize)>, Sched)> = Vec::new();
    let mut pred = |keep: &[(usize, usize)]| {
        if start.elapsed() > Duration::from_secs(50) {
            return false;
        }
        let c = build(keep);
        match child_search(dir, &c, None, prop, clause, 400) {
            Some(s) => {
                found.push((keep.to_vec(), s));
                true
            }
            None => false,
        }
    };
    let kept = ddmin(items, &mut pred, Duration::from_secs(50));
    if let Some((_, s)) = found.iter().rev().find(|(k, _)| *k == kept) {
        best = build(&kept);
        best_sched = s.clone();
    }
    best.threads.retain(|t| !t.is_empty());
    if best.threads.len() != case.threads.len() {
        // thread indices changed: confirm
        match child_search(dir, &best, None, prop, clause, 400) {
            Some(s) => best_sched = s,
            None => {
                best = build(&kept);
            }
        }
    }
    (best, best_sched)
}

fn run_batch(args: &[String]) -> i32 {
    let prop = arg(args, "--prop").expect("--prop");
    let engine = arg(args, "--engine").expect("--engine");
    let seed: u64 = arg(args, "--seed").map_or(1, |s| s.parse().expect("seed"));
    let start: u64 = arg(args, "--start").map_or(0, |s| s.parse().expect("start"));
    let runs: u64 = arg(args, "--runs").map_or(1000, |s| s.parse().expect("runs"));
    let replay_dir: PathBuf = arg(args, "--replay-dir").unwrap_or_else(|| "/verif/replays".into()).into();
    let known: BTreeSet<String> = match arg(args, "--known") {
        Some(f) => std::fs::read_to_string(f).unwrap_or_default().lines().map(|l| l.to_string()).collect(),
        None => BTreeSet::new(),
    };
    let digests = args.iter().any(|a| a == "--digests");
    if engine == "poll" {
        simcore::watchdog::start(prop.clone(), engine.clone(), "C20", replay_dir.clone());
        return poll::run_batch(&prop, seed, start, runs, &replay_dir, &known, digests);
    }
    simcore::watchdog::start(prop.clone(), engine.clone(), "C17", replay_dir.clone());
    // calibration calls every corpus function once: it must not hang either
    simcore::watchdog::begin_case(0, serde_json::json!({"case": {"kind": "Reg", "fns": [], "threads": [[]], "shards": 4, "salt": 0, "fastrand_seed": 1, "probe": false}, "sched": {"pct_depth": 0, "seed": 1}, "note": "hang while calling every corpus function once (calibration)"}));
    calibrate();
    simcore::watchdog::end_case();
    let mut res = WorkerResult { property: prop.clone(), engine: engine.clone(), rule: RULE.to_string(), ..Default::default() };
    let mut known_hits = BTreeSet::new();
    for run in start..start + runs {
        let run_seed = mix(&[seed, hash_str(&prop), hash_str(&engine), run]);
        let (case, sched) = gen_case(&prop, run_seed);
        simcore::watchdog::begin_case(run_seed, serde_json::to_value(SReplay { case: case.clone(), sched: sched.clone() }).unwrap());
        let (out, rp) = execute(&case, &sched, &prop);
        simcore::watchdog::end_case();
        res.runs += 1;
        res.ops += case.threads.iter().map(|t| t.len() as u64).sum::<u64>();
        for (k, v) in &rp.counters {
            if k == "sim_ns" {
                res.sim_ns += *v as i128;
            } else {
                res.counters.add(k, *v);
            }
        }
        res.counters.add("lock_acquisitions", parking_lot::ACQUISITIONS.swap(0, std::sync::atomic::Ordering::Relaxed));
        res.counters.inc(if sched.pct_depth == 0 { "schedule.random" } else { "schedule.pct" });
        res.counters.inc(&format!("dashmap_shards.{}", case.shards));
        res.counters.inc(match &case.kind {
            Kind::L2 => "program.l2",
            Kind::L1(_) => "program.l1",
            Kind::Reg => "program.registration",
        });
        let mut d: u64 = 0;
        for c in &rp.calls {
            d = mix(&[d, c.f as u64, c.k as u64, c.invoke, c.ret, c.executed as u64]);
        }
        let concurrent = {
            // two calls overlapped in time (a context switch happened inside an operation)
            rp.calls.iter().any(|a| rp.calls.iter().any(|b| a.invoke < b.invoke && b.invoke < a.ret))
        };
        if concurrent {
            res.counters.inc("probe.calls_overlapped");
        }
        if rp.calls.iter().any(|a| a.executed && rp.calls.iter().any(|b| b.executed && (a.f, a.k) == (b.f, b.k) && a.invoke < b.invoke && b.invoke < a.ret)) {
            res.counters.inc("probe.two_executions_of_one_key_in_flight");
        }
        res.digest = mix(&[res.digest, d]);
        if digests {
            println!("DIGEST {run} {d:016x}");
        }
        res.states.insert(d);
        if concurrent || !matches!(case.kind, Kind::L2) {
            res.distinct.insert(hash_str(&format!("{}|{}", shape(&case), d % 8)));
        }
        if res.samples.len() < 2 {
            res.samples.push(serde_json::json!({"run": run, "run_seed": run_seed, "sched": sched, "case": case}));
        }
        if let Outcome::Fail(c) = out {
            // this process is not reused for further executions after a failure
            let mut c = c;
            if c.owned_by(&prop) && prop == "C18" {
                // control: the same programs one after the other. A failure that needs no
                // interleaving is not a concurrency defect (it belongs to a sequential property).
                let n = case.threads.len();
                let mut orders: Vec<Vec<usize>> = vec![(0..n).collect()];
                if n == 2 {
                    orders.push(vec![1, 0]);
                } else if n == 3 {
                    orders.extend([vec![0, 2, 1], vec![1, 0, 2], vec![1, 2, 0], vec![2, 0, 1], vec![2, 1, 0]]);
                }
                for o in orders {
                    let mut ctl = case.clone();
                    ctl.sequential = true;
                    ctl.order = o;
                    if child_search(&replay_dir, &ctl, Some(&sched), &prop, &c.name, 1).is_some() {
                        c.owners.retain(|o| o != "C18");
                        res.counters.inc("control.sequential_run_fails_too");
                        break;
                    }
                }
            }
            if c.owned_by(&prop) {
                let sig0 = signature(&case, &c);
                if known.contains(&sig0) {
                    if known_hits.insert(sig0.clone()) {
                        println!("KNOWN-FINDING: property={prop} {sig0} {}", c.detail);
                    }
                    res.counters.inc("known_finding_hits");
                    println!("RESULT {}", serde_json::to_string(&res).unwrap());
                    return 0;
                }
                let (mcase, msched) = minimise(&replay_dir, &case, &sched, &prop, &c.name);
                let sig = signature(&mcase, &c);
                let rp = Replay {
                    property: prop.clone(),
                    clause: c.name.clone(),
                    signature: sig.clone(),
                    detail: c.detail.clone(),
                    engine: "sched".to_string(),
                    run_seed,
                    case: serde_json::to_value(SReplay { case: mcase, sched: msched }).unwrap(),
                };
                std::fs::create_dir_all(&replay_dir).ok();
                let path = replay_dir.join(format!("{}-sched-{:016x}.json", prop, run_seed));
                std::fs::write(&path, serde_json::to_string_pretty(&rp).unwrap()).expect("write replay");
                println!("VIOLATION property={} replay={}", prop, path.display());
                println!("  clause={} signature={}", c.name, sig);
                println!("  {}", c.detail);
                res.violations.push(ViolationRef { property: prop.clone(), clause: c.name.clone(), detail: c.detail.clone(), replay: path.display().to_string(), signature: sig });
            } else {
                res.foreign_deviations += 1;
                res.counters.inc(&format!("foreign.{}", c.name));
            }
            break;
        }
    }
    println!("RESULT {}", serde_json::to_string(&res).unwrap());
    if res.violations.is_empty() {
        0
    } else {
        1
    }
}

fn main() {
    std::panic::set_hook(Box::new(|_| {}));
    let args: Vec<String> = std::env::args().collect();
    let code = match args.get(1).map(|s| s.as_str()) {
        Some("run") => run_batch(&args),
        Some("replay") | Some("search") => {
            let path = args.get(2).expect("file");
            let quiet = args.iter().any(|a| a == "--quiet");
            let rp: Replay = serde_json::from_str(&std::fs::read_to_string(path).expect("read")).expect("parse");
            if rp.engine == "poll" {
                std::process::exit(poll::replay(&rp, path, quiet));
            }
            let sr: SReplay = serde_json::from_value(rp.case.clone()).expect("case");
            calibrate();
            if args[1] == "search" {
                let budget: u64 = arg(&args, "--budget").map_or(300, |s| s.parse().unwrap());
                match search(&sr.case, &rp.property, &rp.clause, 0x5eed, budget) {
                    Some(s) => {
                        println!("FOUND {}", serde_json::to_string(&s).unwrap());
                        1
                    }
                    None => 3,
                }
            } else {
                match execute(&sr.case, &sr.sched, &rp.property) {
                    (Outcome::Fail(c), _) if c.name == rp.clause && c.owned_by(&rp.property) => {
                        if !quiet {
                            println!("  program: {}", serde_json::to_string(&sr.case).unwrap());
                            println!("  schedule: {:?}", sr.sched);
                            println!("VIOLATION property={} replay={}", rp.property, path);
                            println!("  clause={}: {}", c.name, c.detail);
                        }
                        1
                    }
                    (o, _) => {
                        if !quiet {
                            println!("NOT-REPRODUCED property={} expected clause {} got {}", rp.property, rp.clause, match o { Outcome::Ok => "no failure".to_string(), Outcome::Fail(c) => c.name });
                        }
                        3
                    }
                }
            }
        }
        _ => {
            eprintln!("usage: simsched run --prop C17 --engine sched --seed N --start A --runs B | simsched replay FILE");
            2
        }
    };
    std::process::exit(code);
}
